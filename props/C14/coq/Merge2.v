(* C14 — collect_and_prepare IS the interpretation of the classification (same control flow), and
   the assembled statement merge_walk_classifies for arbitrary destinations. *)
From Verif.Base Require Import Tactics.
From Verif.C14 Require Import Model Extracted Proofs Exact1 Exact2 Exact3 Exact4 Exact5 Exact6 Exact8 Order Merge.

Section Run.
Variables (c : cfg) (o : opts) (droot : apath).

(* what process_existing does to the file system (the walker part is Merge.skip) *)
Definition pe_fs (s : fs) (d : apath * entry) : fs := fst (process_existing o s d []).
Lemma process_existing_split s d ds : process_existing o s d ds = (pe_fs s d, skip d ds).
Proof. reflexivity. Qed.

Fixpoint run (evs : list ev) (s : fs) (pl : plan) : outcome * fs * plan :=
  match evs with
  | [] => (OOk, s, pl)
  | EvExtra d :: t => run t (pe_fs s d) pl
  | EvMatch d y :: t =>
    match process_node o droot s pl (np (fst y)) (snd y) true with
    | (OOk, s2, pl2) => run t s2 pl2 | other => other end
  | EvClash d y :: t =>
    match process_node o droot (pe_fs s d) pl (np (fst y)) (snd y) (if c_exists c then negb (o_delete o) else true) with
    | (OOk, s2, pl2) => run t s2 pl2 | other => other end
  | EvNew y :: t =>
    match process_node o droot s pl (np (fst y)) (snd y) false with
    | (OOk, s2, pl2) => run t s2 pl2 | other => other end
  end.

Lemma merge_cmp_is_ncmp (d : apath * entry) (y : nodeT) : pcmp (map CNormal (fst d)) (cmp_comps droot (np (fst y))) = ncmp (fst d) (Pn droot y).
Proof. rewrite cmp_comps_np. apply pcmp_normal. Qed.

Local Opaque process_existing process_node.
Lemma collect_is_run : forall fuel s pl dst rem, length dst + length rem < fuel ->
  collect c fuel o droot s pl dst (map toO rem) = run (classify droot fuel dst rem) s pl.
Proof.
  induction fuel as [|fuel IH]; intros s pl dst rem Hf; [lia|].
  destruct dst as [|d ds]; destruct rem as [|y ns]; cbn [map toO toS collect classify run].
  - reflexivity.
  - destruct (process_node o droot s pl (np (fst y)) (snd y) false) as [[[] s2] pl2]; try reflexivity.
    apply IH. simpl in *. lia.
  - rewrite process_existing_split. apply (IH _ _ _ []). pose proof (skip_len d ds). simpl in *. lia.
  - rewrite merge_cmp_is_ncmp. destruct (ncmp (fst d) (Pn droot y)) eqn:Ec.
    + destruct (type_mismatch (snd y) (snd d)) eqn:Em; cbn [run andb].
      * rewrite process_existing_split.
        destruct (process_node o droot (pe_fs s d) pl (np (fst y)) (snd y) (if c_exists c then negb (o_delete o) else true)) as [[[] s2] pl2]; try reflexivity.
        apply IH. pose proof (skip_len d ds). simpl in *. lia.
      * destruct (process_node o droot s pl (np (fst y)) (snd y) true) as [[[] s2] pl2]; try reflexivity.
        apply IH. simpl in *. lia.
    + cbn [run]. rewrite process_existing_split. apply (IH _ _ _ (y :: ns)). pose proof (skip_len d ds). simpl in *. lia.
    + cbn [run]. destruct (process_node o droot s pl (np (fst y)) (snd y) false) as [[[] s2] pl2]; try reflexivity.
      apply (IH _ _ (d :: ds)). simpl in *. lia.
Qed.
Local Transparent process_existing process_node.
End Run.

(* no entry of another type stands at a snapshot path, unless delete is set (an identical symlink
   is "replaced" by the same symlink and counts as the same type) *)
Definition SameTypeOrDelete (o : opts) (droot : apath) (nodes : list nodeT) (s : fs) : Prop :=
  forall d y, In d (walk droot s) -> In y nodes -> fst d = Pn droot y -> type_mismatch (snd y) (snd d) = true ->
    o_delete o = true \/ exists t, snd y = ILink t /\ snd d = ELink t.

Lemma ss_ltN droot nodes : StronglySorted (fun p q => ncmp p q = Lt) (map fst nodes) -> StronglySorted (ltN droot) nodes.
Proof.
  induction nodes as [|a l IH]; simpl; intros H; [constructor|]. inv H. constructor; [auto|].
  apply Forall_forall. intros b Hb. rewrite Forall_forall in H3. unfold ltN, Pn. rewrite ncmp_app_head.
  apply H3. apply in_map. assumption.
Qed.

Theorem merge_walk_classifies_lemma : forall c o droot nodes s,
  StronglySorted (ltN droot) nodes ->
  (forall x j, In x nodes -> 0 < j < length (fst x) -> exists mt mo, In (firstn j (fst x), IDir mt mo) nodes) ->
  NoDup (map fst s) ->
  let dst := walk droot s in
  let evs := classify droot (S (length dst + length nodes)) dst nodes in
  ssD dst /\
  collect_and_prepare c o droot s (map toO nodes) = run c o droot evs s plan0 /\
  ev_nodes evs = nodes /\
  Forall (ev_ok droot nodes dst nodes) evs /\
  ssD (ev_entries evs) /\
  (forall d, In d dst -> covered_by evs d) /\
  (SameTypeOrDelete o droot nodes s ->
   forall d y, In (EvClash d y) evs -> o_delete o = true \/ exists t, snd y = ILink t /\ snd d = ELink t).
Proof.
  intros c o droot nodes s NS N3 Hnd dst evs.
  assert (Hs : ssD dst) by (apply walk_sorted_lemma; assumption).
  destruct (classify_spec droot nodes NS N3 (S (length dst + length nodes)) [] nodes dst eq_refl) as (A & B & C & D); auto.
  { intros d Hd. apply (walk_sound droot s d Hd). }
  { intros y d []. }
  split; [exact Hs|]. split.
  - unfold collect_and_prepare. rewrite map_length. apply collect_is_run. fold dst. lia.
  - split; [exact A|]. split; [exact B|]. split; [exact C|]. split; [exact D|].
    intros HST d y Hin. rewrite Forall_forall in B. specialize (B _ Hin). simpl in B.
    destruct B as (B1 & B2 & B3 & B4). apply (HST d y); auto.
Qed.

(* on the tree: children sorted by name *)
Theorem merge_walk_classifies_tree_lemma : forall c o droot roots s,
  forallb nnb roots = true -> sibs_sorted roots -> NoDup (map fst s) ->
  let nodes := flat_list [] roots in
  let dst := walk droot s in
  let evs := classify droot (S (length dst + length nodes)) dst nodes in
  stream c roots = map toO nodes /\
  ssD dst /\ StronglySorted (ltN droot) nodes /\
  collect_and_prepare c o droot s (stream c roots) = run c o droot evs s plan0 /\
  ev_nodes evs = nodes /\
  Forall (ev_ok droot nodes dst nodes) evs /\
  ssD (ev_entries evs) /\
  (forall d, In d dst -> covered_by evs d) /\
  (SameTypeOrDelete o droot nodes s ->
   forall d y, In (EvClash d y) evs -> o_delete o = true \/ exists t, snd y = ILink t /\ snd d = ELink t).
Proof.
  intros c o droot roots s Hn Hs Hnd nodes dst evs.
  assert (NS : StronglySorted (ltN droot) nodes) by (apply ss_ltN, flat_sorted; assumption).
  assert (N3 : forall x j, In x nodes -> 0 < j < length (fst x) -> exists mt mo, In (firstn j (fst x), IDir mt mo) nodes).
  { intros x j Hx Hj. apply (flat_prefix_closed roots [] x j Hn Hx). simpl. lia. }
  destruct (merge_walk_classifies_lemma c o droot nodes s NS N3 Hnd) as (A & B & C & D & E & F & G).
  rewrite (stream_flat c roots Hn).
  split; [reflexivity|]. split; [exact A|]. split; [exact NS|]. split; [exact B|].
  split; [exact C|]. split; [exact D|]. split; [exact E|]. split; [exact F|exact G].
Qed.

(* the comparison fact regenerated from the source: the classification above is the code's control
   flow only if the code compares with Path::cmp *)
Lemma merge_cmp_fact : merge_cmp_component_wise = true.
Proof. reflexivity. Qed.
