(* prelude: zn nat *)
(* C14 driver: same `model` case lines as harness/src/bin/c14.rs.
   model delete verify sparse chunk NS {entry}* ND {entry}*
   entry: k name_1..name_k kind  [f mtime mode len byte*] [d mtime mode] [l target] *)
type ent = { path : int list; kind : char; mtime : int; mode : int; bytes : int list; target : int }

let rd_entries t =
  let n = ni t in
  ntimes n (fun () ->
    let k = ni t in
    let path = ntimes k (fun () -> ni t) in
    match next t with
    | "f" -> let mtime = ni t in let mode = ni t in let len = ni t in
             let bytes = ntimes len (fun () -> ni t) in
             { path; kind = 'f'; mtime; mode; bytes; target = 0 }
    | "d" -> let mtime = ni t in let mode = ni t in { path; kind = 'd'; mtime; mode; bytes = []; target = 0 }
    | _ -> let tg = ni t in { path; kind = 'l'; mtime = 0; mode = 0; bytes = []; target = tg })

let rec chunks n l =
  if l = [] then [] else
  let rec take k l acc = if k = 0 then (List.rev acc, l) else match l with [] -> (List.rev acc, []) | x :: r -> take (k - 1) r (x :: acc) in
  let (a, r) = take n l [] in a :: chunks n r

let droot = [1; 2]
let nl l = List.map n_of_int l

let case line =
  let t = toks line in
  let _mode = next t in
  let delete = ni t = 1 in let verify = ni t = 1 in let sparse = ni t = 1 in
  let chunk = ni t in
  let snap = rd_entries t in
  let dest = rd_entries t in
  (* blob ids by content (deduplication): same bytes -> same (pack, offset) *)
  let keys = Hashtbl.create 16 in
  let blob_of d =
    let k = match Hashtbl.find_opt keys d with Some k -> k | None -> let k = Hashtbl.length keys in Hashtbl.add keys d k; k in
    { b_pack = n_of_int (100 + k / 3); b_off = n_of_int (k mod 3 * 1000); b_data = nl d } in
  let rec build prefix =
    let kids = List.filter (fun e -> List.length e.path = List.length prefix + 1 &&
                                     (let rec pre a b = match a, b with [], _ -> true | x :: a', y :: b' -> x = y && pre a' b' | _ -> false in pre prefix e.path)) snap in
    let kids = List.sort (fun a b -> compare a.path b.path) kids in
    List.map (fun e ->
      let name = { p_abs = false; p_comps = [CNormal (n_of_int (List.nth e.path (List.length prefix)))] } in
      match e.kind with
      | 'f' -> Node (name, IFile (List.map blob_of (chunks (if chunk = 0 then max 1 (List.length e.bytes) else chunk) e.bytes),
                                  n_of_int (List.length e.bytes), n_of_int e.mtime, n_of_int e.mode), [])
      | 'd' -> Node (name, IDir (n_of_int e.mtime, n_of_int e.mode), build e.path)
      | _ -> Node (name, ILink (n_of_int e.target), [])) kids in
  let roots = build [] in
  let world = [ (nl [1], EDir (n_of_int 5, n_of_int 493)); (nl droot, EDir (n_of_int 5, n_of_int 493)) ] @
    List.map (fun e ->
      let p = nl (droot @ e.path) in
      match e.kind with
      | 'f' -> (p, EFile (nl e.bytes, n_of_int e.mtime, n_of_int e.mode))
      | 'd' -> (p, EDir (n_of_int e.mtime, n_of_int e.mode))
      | _ -> (p, ELink (n_of_int e.target))) dest in
  let o = { o_delete = delete; o_verify = verify; o_sparse = sparse } in
  (* the coalesced execution: PackInfo::coalesce with the extracted guard and constants *)
  let r = restore_c code_cfg code_coalesce_guard code_cc o (nl droot) roots world in
  let out = match r.r_out with OOk -> "ok" | OErr -> "err" | OPanic -> "panic" in
  let listing = walk (nl droot) r.r_fs in
  let strip p = let rec drop k l = if k = 0 then l else match l with [] -> [] | _ :: r -> drop (k - 1) r in drop (List.length droot) p in
  let parts = List.map (fun (p, e) ->
    let ps = String.concat "/" (List.map (fun n -> string_of_int (int_of_n n)) (strip p)) in
    match e with
    | EFile (d, m, mo) -> Printf.sprintf "%s:f:%d:%o:%s" ps (int_of_n m) (int_of_n mo) (String.concat "," (List.map (fun b -> string_of_int (int_of_n b)) d))
    | EDir (m, mo) -> Printf.sprintf "%s:d:%d:%o" ps (int_of_n m) (int_of_n mo)
    | ELink tg -> Printf.sprintf "%s:l:%d" ps (int_of_n tg)) listing in
  let subset = List.for_all (fun p -> List.exists (fun q -> q = p) r.r_to_packs) r.r_reads in
  Printf.sprintf "%s|%s|%s" out (String.concat " " parts) (if subset then "reads_in_to_packs" else "READS_NOT_IN_TO_PACKS")

let () = main_loop case
