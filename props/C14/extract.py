"""C14 fact extractor: regenerates props/C14/coq/Extracted.v — which of the decision points the
model is parameterised by are present in the current source:

  c_names       blob/tree.rs NodeStreamer::next refuses node names that are not a single normal
                path component before `self.path.join(node.name())` — and the string it tests is
                that same unescaped `node.name()`, not the stored escaped `node.name`
  c_exists      commands/restore.rs collect_and_prepare: after a type mismatch the node is processed
                with exists = !opts.delete (not a constant `true`)
  c_sparse_pre  commands/restore.rs restore_contents: the write of an all-zero blob is skipped only
                for files that did not exist before (`!is_sparse || preexisting[file_idx]`)

plus the shape facts the model relies on (set_length without truncate, unwrap inside the pool,
remove only under opts.delete).  Fails loudly when an item no longer has a recognised shape."""
import re, sys, os
sys.path.insert(0, os.path.join(os.path.dirname(__file__), "..", "..", "lib"))
from rustscan import *


def squash(s):
    return re.sub(r"\s+", " ", strip_comments(s))


def gen(repo):
    tree = read(repo, "crates/core/src/blob/tree.rs")
    rest = read(repo, "crates/core/src/commands/restore.rs")
    dest = read(repo, "crates/core/src/backend/local_destination.rs")
    meta = {}
    # --- NodeStreamer::next
    i = tree.find("Iterator for NodeStreamer")
    if i < 0:
        raise ExtractError("impl Iterator for NodeStreamer not found in tree.rs")
    body = squash(tree[i:i + 4000])
    j = body.find("self.path.join(node.name())")
    if j < 0:
        raise ExtractError("NodeStreamer::next no longer joins self.path with node.name()")
    head = body[:j]
    if "self.path.push(node.name())" not in body or "self.path.pop()" not in body:
        raise ExtractError("NodeStreamer::next: push/pop of the current path not found")
    guarded = ("Component::Normal" in head and "return Some(Err(" in head
               and re.search(r"components\.next\(\), components\.next\(\)", head) is not None)
    if not guarded and ("Component" in head or "return Some(Err(" in head):
        raise ExtractError("NodeStreamer::next: a name check of an unrecognised shape precedes the join")
    meta["name_check_on"] = None
    if guarded:
        # WHICH string is checked: it has to be the very string that is joined afterwards, i.e. the
        # unescaped `node.name()`; the stored `node.name` is the Go-style escaped spelling
        # (`\x2e\x2e` is one normal component as a string and unescapes to `..`)
        m = re.search(r"let name = (.*?);", head)
        if not m:
            raise ExtractError("NodeStreamer::next: the checked string is not bound by `let name = ...;`")
        checked = m.group(1).strip()
        if checked == "node.name()":
            if not re.search(r"Path::new\(&name\)\.components\(\)", head) or "if comp == &*name" not in head:
                raise ExtractError("NodeStreamer::next: the name check does not test Path::new(&name).components() / comp == &*name")
            meta["name_check_on"] = "node.name() (unescaped, the joined string)"
        elif re.fullmatch(r"&?node\.name(\.as_str\(\)|\.clone\(\)|\.as_ref\(\))?", checked):
            # a check of the stored spelling guarantees nothing about the joined path
            meta["name_check_on"] = "node.name (stored, escaped spelling) - not the joined string"
            guarded = False
        else:
            raise ExtractError("NodeStreamer::next: the name check tests an unrecognised string: " + checked)
    meta["c_names"] = guarded
    # --- collect_and_prepare, Equal branch
    cb = squash(fn_body(rest, "collect_and_prepare"))
    m = re.search(r"Ordering::Equal => \{(.*?)Ordering::Greater", cb)
    if not m:
        raise ExtractError("collect_and_prepare: Ordering::Equal arm not found")
    eq = m.group(1)
    # the merge-walk compares the two paths component-wise (Path::cmp), the order both streams are sorted in
    if "match destination.path().cmp(&dest.path(path)) {" in cb:
        meta["merge_cmp"] = "Path::cmp (component-wise)"
        meta["merge_cmp_component_wise"] = True
    elif re.search(r"match destination \.path\(\) \.as_os_str\(\) \.cmp\(dest\.path\(path\)\.as_os_str\(\)\)", cb) or "destination.path().as_os_str().cmp(" in cb.replace(" ", ""):
        # a recognised other comparison: raw strings; Merge.classify (component-wise) is then not the code's control flow
        meta["merge_cmp"] = "OsStr::cmp (raw string order)"
        meta["merge_cmp_component_wise"] = False
    else:
        raise ExtractError("collect_and_prepare: the merge-walk no longer compares `destination.path().cmp(&dest.path(path))` (component-wise Path order)")
    if ".sort_by_file_name()" not in cb:
        raise ExtractError("collect_and_prepare: the destination walk is no longer sorted by file name")
    if "node.is_dir() && !destination.file_type().is_dir()" not in eq or "node.is_special()" not in eq:
        raise ExtractError("collect_and_prepare: type-mismatch test has changed")
    if "process_node(path, node, true)?" in eq:
        meta["c_exists"] = False
    elif "process_node(path, node, exists)?" in eq and re.search(r"process_existing\(&mut walker, destination\)\?; !opts\.delete \}", eq):
        meta["c_exists"] = True
    else:
        raise ExtractError("collect_and_prepare: call of process_node in the Equal arm has an unrecognised shape")
    if "(false, _, _) => { additional_existing = true; }" not in cb or "match (opts.delete, dry_run, is_dir)" not in cb:
        raise ExtractError("process_existing: removal is no longer guarded by match (opts.delete, dry_run, is_dir)")
    # --- restore_contents
    rc = squash(fn_body(rest, "restore_contents"))
    if "if !is_sparse || preexisting[file_idx] { dest.write_at(path, start, &data).unwrap(); }" in rc:
        meta["c_sparse_pre"] = True
    elif "if !is_sparse { dest.write_at(path, start, &data).unwrap(); }" in rc:
        meta["c_sparse_pre"] = False
    else:
        raise ExtractError("restore_contents: guard of write_at has an unrecognised shape")
    if meta["c_sparse_pre"]:
        af = squash(fn_body(rest, "add_file"))
        if "self.preexisting .push(std::fs::symlink_metadata(dest.path(&name)).is_ok());" not in af.replace("self.preexisting.push", "self.preexisting .push"):
            raise ExtractError("add_file: `preexisting` is not the existence of the destination path")
    if "dest.set_length(path, filesize).unwrap();" not in rc:
        raise ExtractError("restore_contents: set_length(...).unwrap() inside the pool not found")
    meta["pool_unwrap"] = True
    sl = squash(fn_body(dest, "set_length"))
    if ".create(true) .truncate(false) .write(true)" not in sl or ".set_len(size)" not in sl:
        raise ExtractError("LocalDestination::set_length: open options changed")
    gm = squash(fn_body(dest, "get_matching_file"))
    if "meta.is_file() && meta.len() == size" not in gm:
        raise ExtractError("LocalDestination::get_matching_file changed")
    # --- PackInfo::coalesce: which side's from_file must be None for a merge (the merged entry keeps self.from_file)
    i = rest.find("impl PackInfo")
    if i < 0:
        raise ExtractError("impl PackInfo not found in restore.rs")
    co = squash(fn_body(rest[i:], "coalesce"))
    if "from_file: self.from_file" not in co or "self.locations.append(other.locations)" not in co or "self.pack_id == other.pack_id" not in co:
        raise ExtractError("PackInfo::coalesce: merge no longer keeps self.from_file / appends other.locations")
    gs, go = "self.from_file.is_none()" in co, "other.from_file.is_none()" in co
    if gs and not go:
        meta["coalesce_guard"] = "CgSelf"
    elif go and not gs:
        meta["coalesce_guard"] = "CgOther"
    else:
        raise ExtractError("PackInfo::coalesce: guard on from_file has an unrecognised shape")
    if "if from_file.is_some() { read_data.clone() }" not in rc:
        raise ExtractError("restore_contents: `if from_file.is_some() { read_data.clone() }` not found")
    blob = read(repo, "crates/core/src/blob.rs")
    cc = squash(fn_body(blob, "can_coalesce"))
    if cc.replace(" ", "") != "other.offset<=self.offset+self.length+constants::MAX_HOLESIZE&&other.offset>=self.offset+self.length&&other.offset+other.length-self.offset<=constants::LIMIT_PACK_READ":
        raise ExtractError("BlobLocations::can_coalesce changed")
    meta["max_holesize"] = int_expr(const_value(blob, "MAX_HOLESIZE"))
    meta["limit_pack_read"] = int_expr(const_value(blob, "LIMIT_PACK_READ"))
    b = lambda x: "true" if x else "false"
    out = ["(* GENERATED by props/C14/extract.py from blob/tree.rs, commands/restore.rs,",
           "   backend/local_destination.rs - do not edit *)",
           "From Coq Require Import NArith.",
           "From Verif.C14 Require Import Model.",
           "Definition code_cfg : cfg := mkC %s %s %s." % (b(meta["c_names"]), b(meta["c_exists"]), b(meta["c_sparse_pre"])),
           "(* the comparison of the merge-walk in collect_and_prepare is Path::cmp (component-wise), the order",
           "   WalkDir::sort_by_file_name and the node streamer deliver; Model.collect uses pcmp = Order.ncmp *)",
           "Definition merge_cmp_component_wise : bool := %s." % b(meta["merge_cmp_component_wise"]),
           "(* PackInfo::coalesce: the side whose from_file must be None; BlobLocations::can_coalesce with its constants *)",
           "Definition code_coalesce_guard : cguard := %s." % meta["coalesce_guard"],
           "Definition code_cc : pinfo -> pinfo -> bool := can_coalesce %d%%N %d%%N." % (meta["max_holesize"], meta["limit_pack_read"]),
           ""]
    return "\n".join(out), meta


if __name__ == "__main__":
    t, m = gen(os.environ.get("VERIF_REPO", "/repo"))
    print(t); print(m)
