"""C14 — restore yields exactly the snapshot and never writes outside the target.

Stages: regenerate Extracted.v (which repairs the source contains); build + audit the Coq
theorems; replay the hostile-name witnesses on the real code (crafted trees through the C14
hook); correspondence of the extracted model with real restores on small abstract cases
(fixed-size chunks); the property itself as end-to-end oracle on seeded trees restored into
mutated destinations surrounded by sentinels."""
import os, sys, json, subprocess
import vlib
from vlib import ROOT, REPO, log

SIG_CLASH = "dest-entry-of-different-type-and-delete-false"
SIG_LINK = "existing-symlink-kept"


def run_lines(exe, lines, tag, par=4, timeout=900):
    """run the case lines through `exe` in `par` processes, results in input order"""
    if not lines:
        return []
    bdir = os.path.join(vlib.BUILD, "C14")
    os.makedirs(bdir, exist_ok=True)
    par = max(1, min(par, len(lines)))
    chunks = [lines[i::par] for i in range(par)]
    procs = []
    for i, ch in enumerate(chunks):
        path = os.path.join(bdir, "in_%s_%d_%d.txt" % (tag, os.getpid(), i))
        open(path, "w").write("\n".join(ch) + "\n")
        procs.append((path, subprocess.Popen([exe, path], stdout=subprocess.PIPE, stderr=subprocess.DEVNULL, text=True, errors="replace")))
    outs = []
    for path, p in procs:
        try:
            o, _ = p.communicate(timeout=timeout)
        except subprocess.TimeoutExpired:
            p.kill(); o = ""
        os.remove(path)
        outs.append(o.splitlines())
    res = [None] * len(lines)
    for i, (ch, o) in enumerate(zip(chunks, outs)):
        if len(o) != len(ch):
            raise RuntimeError("%s produced %d of %d result lines" % (exe, len(o), len(ch)))
        for j, x in enumerate(o):
            res[i + j * par] = x
    return res


# ------------------------------------------------------------------ abstract cases for the model
NAMES = [1, 2, 3, 4, 5, 6]
DMODES = [493, 448, 488]
FMODES = [420, 384]


def gen_bytes(rng, n):
    style = rng.randint(0, 3)
    if style == 0: return [0] * n
    if style == 1: return [rng.choice([0, 0, 0, 1]) for _ in range(n)]
    return [rng.choice([0, 1, 2, 3]) for _ in range(n)]


def gen_tree(rng, maxn):
    """parent-first list of entries (path tuple, kind, fields)"""
    ents, dirs, used = [], [()], set()
    for _ in range(rng.randint(1, maxn)):
        par = rng.choice(dirs)
        p = par + (rng.choice(NAMES),)
        if p in used: continue
        used.add(p)
        k = rng.random()
        if k < 0.25 and len(p) < 3:
            dirs.append(p); ents.append({"p": p, "k": "d", "mtime": rng.choice([1000, 2000]), "mode": rng.choice(DMODES)})
        elif k < 0.4:
            ents.append({"p": p, "k": "l", "t": rng.choice([1, 2])})
        else:
            ents.append({"p": p, "k": "f", "mtime": rng.choice([1000, 2000]), "mode": rng.choice(FMODES), "b": gen_bytes(rng, rng.choice([0, 1, 2, 3, 4, 6, 7]))})
    return ents


def derive_dest(rng, snap):
    kind = rng.randint(0, 9)
    if kind == 0: return []
    if kind == 1: return gen_tree(rng, 5)
    out, dropped = [], []
    for e in snap:
        if any(e["p"][:len(d)] == d for d in dropped): continue
        m = 0 if kind == 2 else rng.random()
        if e["k"] == "f":
            b = e["b"]
            if m < 0.3: out.append(dict(e))
            elif m < 0.4: out.append(dict(e, b=[(x + 1) % 4 for x in b]))                      # stale: same size and mtime
            elif m < 0.5: out.append(dict(e, b=[(x + 1 + i % 2) % 4 for i, x in enumerate(b)], mtime=3000))
            elif m < 0.58: out.append(dict(e, b=[7] * max(0, len(b) + rng.choice([0, 0, 1, 2, -1])), mtime=3000))  # old non-zero bytes, same or other size
            elif m < 0.66: out.append(dict(e, b=b[:rng.randint(0, max(0, len(b) - 1))], mtime=rng.choice([3000, e["mtime"]])))
            elif m < 0.74: out.append(dict(e, b=b + [rng.choice([0, 5])] * rng.randint(1, 3), mtime=rng.choice([3000, e["mtime"]])))
            elif m < 0.8:
                out.append({"p": e["p"], "k": "d", "mtime": 3000, "mode": 493})
                out.append({"p": e["p"] + (1,), "k": "f", "mtime": 3000, "mode": 420, "b": [9]})
            elif m < 0.85: out.append({"p": e["p"], "k": "l", "t": 1})
            elif m < 0.93: pass
            else: out.append(dict(e, mode=384 if e["mode"] != 384 else 420, mtime=rng.choice([3000, e["mtime"]])))
        elif e["k"] == "d":
            if m < 0.7: out.append(dict(e))
            elif m < 0.78: out.append({"p": e["p"], "k": "f", "mtime": 3000, "mode": 420, "b": [8, 8]}); dropped.append(e["p"])
            elif m < 0.83: out.append({"p": e["p"], "k": "l", "t": 1}); dropped.append(e["p"])
            elif m < 0.92: dropped.append(e["p"])
            else: out.append(dict(e, mtime=3000, mode=448))
        else:
            if m < 0.5: out.append(dict(e))
            elif m < 0.65: out.append(dict(e, t=3 - e["t"]))
            elif m < 0.75: out.append({"p": e["p"], "k": "f", "mtime": 3000, "mode": 420, "b": [8]})
            elif m < 0.85:
                out.append({"p": e["p"], "k": "d", "mtime": 3000, "mode": 493})
                out.append({"p": e["p"] + (2,), "k": "f", "mtime": 3000, "mode": 420, "b": []})
    # extras
    dirs = [()] + [e["p"] for e in out if e["k"] == "d"]
    have = {e["p"] for e in out} | {e["p"] for e in snap}
    for _ in range(rng.choice([0, 0, 1, 2])):
        p = rng.choice(dirs) + (rng.choice(NAMES + [0, 7]),)
        if p in have: continue
        have.add(p)
        k = rng.randint(0, 3)
        if k == 0:
            out.append({"p": p, "k": "d", "mtime": 3000, "mode": 488}); out.append({"p": p + (3,), "k": "f", "mtime": 3000, "mode": 384, "b": [5, 5]})
            have.add(p + (3,))
        elif k == 1: out.append({"p": p, "k": "l", "t": 3})
        else: out.append({"p": p, "k": "f", "mtime": 3000, "mode": 384, "b": gen_bytes(rng, rng.randint(0, 4))})
    return out


def gen_sibling_case(rng):
    """Snapshot with a directory x (name 1) and siblings whose names are x + a byte below '/'
    (2 `x y`, 3 `x!`, 4 `x-y`, 5 `x.z`) or above it (6 `x0`) as files and dirs, at depth 0-2;
    destination = the snapshot (as a former restore left it) + an extra entry inside x that sorts
    after x's snapshot children (+ sometimes one more mutation).  As paths x/... < x-y, as strings
    x-y < x/...: a merge-walk that is not component-wise falls out of step here."""
    prefix = rng.choice([(), (), (0,), (0, 7), (1,)])
    ents = []
    for i in range(len(prefix)):
        ents.append({"p": prefix[:i + 1], "k": "d", "mtime": 1000, "mode": 493})
    def add_cluster(pre):
        x = pre + (1,)
        if any(e["p"] == x for e in ents): return
        ents.append({"p": x, "k": "d", "mtime": rng.choice([1000, 2000]), "mode": rng.choice(DMODES)})
        for n in rng.sample([0, 1, 4, 6], rng.randint(0, 2)):
            ents.append({"p": x + (n,), "k": "f", "mtime": 1000, "mode": 420, "b": gen_bytes(rng, rng.randint(0, 5))})
        for n in [2, 3, 4, 5, 6]:
            r = rng.random()
            if r < 0.35: continue
            if r < 0.7:
                ents.append({"p": pre + (n,), "k": "f", "mtime": rng.choice([1000, 2000]), "mode": rng.choice(FMODES), "b": gen_bytes(rng, rng.randint(1, 6))})
            else:
                ents.append({"p": pre + (n,), "k": "d", "mtime": 2000, "mode": rng.choice(DMODES)})
                for m in rng.sample([0, 1, 5, 7], rng.randint(1, 2)):
                    ents.append({"p": pre + (n, m), "k": "f", "mtime": 1000, "mode": 420, "b": gen_bytes(rng, rng.randint(1, 5))})
        return x
    xs = [add_cluster(prefix)]
    if rng.random() < 0.3 and len(prefix) < 2: xs.append(add_cluster(prefix + (1,)))
    if rng.random() < 0.3: ents.append({"p": prefix + (7,), "k": "f", "mtime": 1000, "mode": 420, "b": [1]})
    # parents first, siblings in any order: sort by depth-stable path order
    ents.sort(key=lambda e: e["p"])
    # a nested cluster may name a path twice (child of x / sibling of the inner x): keep the first,
    # drop what would then hang below a non-directory
    seen, uniq = {}, []
    for e in ents:
        if e["p"] in seen or (len(e["p"]) > 1 and seen.get(e["p"][:-1]) != "d"): continue
        seen[e["p"]] = e["k"]; uniq.append(e)
    ents = uniq
    dest = [dict(e) for e in ents]
    for x in xs:
        if x is None: continue
        p = x + (7,)
        if seen.get(x) == "d" and not any(e["p"] == p for e in ents):
            if rng.random() < 0.5: dest.append({"p": p, "k": "f", "mtime": 3000, "mode": 384, "b": [5]})
            else:
                dest.append({"p": p, "k": "d", "mtime": 3000, "mode": 488}); dest.append({"p": p + (0,), "k": "f", "mtime": 3000, "mode": 384, "b": [6, 6]})
    if rng.random() < 0.3 and dest:
        files = [e for e in dest if e["k"] == "f" and e["b"]]
        if files:
            e = rng.choice(files); e["b"] = [(b + 1) % 4 for b in e["b"]]; e["mtime"] = 3000
    o = [1 if rng.random() < 0.7 else 0, rng.randint(0, 1), rng.randint(0, 1)]
    chunk = rng.choice([1, 2, 3, 0])
    return {"o": o, "chunk": chunk, "snap": ents, "dest": dest, "sibling_shape": True,
            "line": " ".join(str(x) for x in ["model"] + o + [chunk] + toks_entries(ents) + toks_entries(dest))}


def toks_entries(ents):
    t = [len(ents)]
    for e in ents:
        t += [len(e["p"])] + list(e["p"]) + [e["k"]]
        if e["k"] == "f": t += [e["mtime"], e["mode"], len(e["b"])] + e["b"]
        elif e["k"] == "d": t += [e["mtime"], e["mode"]]
        else: t += [e["t"]]
    return t


def model_case(rng):
    snap = gen_tree(rng, 6)
    dest = derive_dest(rng, snap)
    o = [rng.randint(0, 1), rng.randint(0, 1), rng.randint(0, 1)]
    chunk = rng.choice([1, 2, 3, 0])
    return {"o": o, "chunk": chunk, "snap": snap, "dest": dest,
            "line": " ".join(str(x) for x in ["model"] + o + [chunk] + toks_entries(snap) + toks_entries(dest))}


def canon_entry(e):
    p = "/".join(str(x) for x in e["p"])
    if e["k"] == "f": return "%s:f:%d:%o:%s" % (p, e["mtime"], e["mode"], ",".join(map(str, e["b"])))
    if e["k"] == "d": return "%s:d:%d:%o" % (p, e["mtime"], e["mode"])
    return "%s:l:%d" % (p, e["t"])


def model_oracle(c, state):
    """The property on an `ok` result: returns (list of violated clauses, classes present)."""
    delete, verify, sparse = c["o"]
    snap = {e["p"]: e for e in c["snap"]}
    dest = {e["p"]: e for e in c["dest"]}
    post = {}
    for tok in state.split():
        f = tok.split(":")
        post[tuple(int(x) if x.isdigit() else x for x in f[0].split("/"))] = tok
    clash = [p for p in dest if p in snap and dest[p]["k"] != snap[p]["k"]]
    linkdiff = [p for p in dest if p in snap and dest[p]["k"] == "l" == snap[p]["k"] and dest[p]["t"] != snap[p]["t"]]
    bad = []
    under_clash = lambda p: any(p[:len(q)] == q for q in clash)
    for p, e in snap.items():
        if not delete and (under_clash(p) or p in linkdiff): continue       # known classes, evaluated separately
        d = dest.get(p)
        stale = (not verify and e["k"] == "f" and d is not None and d["k"] == "f" and len(d["b"]) == len(e["b"])
                 and d["mtime"] == e["mtime"] and d["b"] != e["b"] and len(e["b"]) > 0)
        want = canon_entry(e)
        got = post.get(p)
        if stale and got is not None and got.split(":")[:4] == want.split(":")[:4]: continue
        if got != want: bad.append("snapshot path %s: %s instead of %s" % ("/".join(map(str, p)), got, want))
    for p, e in dest.items():
        if p in snap: continue
        if not delete and under_clash(p): continue
        if delete and p in post: bad.append("extra %s kept although delete" % (p,))
        if not delete and post.get(p) != canon_entry(e): bad.append("extra %s changed without delete: %s" % (p, post.get(p)))
    for p in post:
        if p not in snap and p not in dest:
            # a file created through a dangling destination symlink (clash class, no delete)
            if not delete and clash and any(isinstance(x, str) for x in p): continue
            bad.append("unexpected entry %s" % (p,))
    kept = [p for p in linkdiff if not delete and post.get(p) == canon_entry(dest[p])]
    return bad, {"clash": bool(clash), "linkdiff": bool(linkdiff), "symlink_kept": bool(kept)}


def link_clash(c):
    snap = {e["p"]: e for e in c["snap"]}
    return any(e["k"] == "l" and e["p"] in snap and snap[e["p"]]["k"] != "l" for e in c["dest"])


def run(ctx):
    rng = ctx.rng
    cov = ctx.coverage
    meta, err = vlib.regen_extracted("C14")
    r = vlib.proof_stage(ctx)
    if err:
        r["ok"] = False
        r["failures"].append("fact extraction from tree.rs/restore.rs/local_destination.rs failed: " + err)
    cov["trusted_base"] += ["props/C14/extract.py (recognises the name check in NodeStreamer::next, the exists flag after a type mismatch, the sparse guard, set_length's open options)",
                            "POSIX file-system semantics of the model's primitives (create_dir_all, open/set_len, pwrite, symlink, unlink, remove_dir_all) — by hypothesis, validated by the correspondence",
                            "harness/src/bin/c14.rs: pre/post scans of the destination and of the world around it; evaluation of the property path by path"]
    ctx.assumptions += ["file system = finite map from normalised absolute paths to File/Dir/Symlink entries; symbolic links are never followed by the model (a destination symlink at a snapshot path of another type is the known-finding class, observed end to end)",
                        "lexical resolution of `..` (exact when the prefix exists as real directories)",
                        "hash collision-freedom: Id::blob_matches_reader is equality of the bytes read",
                        "index consistency: equal (pack, offset) keys carry equal bytes",
                        "worker-pool tasks are executed in BTreeMap order; writes go to disjoint regions; after a panic the destination state is unspecified",
                        "hard links, ownership, xattrs, special files other than symlinks are not in the model (hard links are covered by the e2e oracle)",
                        "no concurrent modification of the destination during the restore"]
    try:
        model = vlib.build_model("C14")
    except RuntimeError as e:
        model = None
        if r["ok"]:
            r["ok"] = False; r["failures"].append("extracted model no longer builds: " + str(e)[-500:])
    impl = vlib.build_harness("c14")
    hist = {}
    def h(k, n=1): hist[k] = hist.get(k, 0) + n
    samples = []
    viol = []          # (what, witness, signature)
    evals = 0

    # ---------------------------------------------------------------- A. hostile names, replayed
    hl = ["hostile %d %d" % (v, d) for v in range(10) for d in ((0, 1) if (ctx.thorough() or v in (1, 4)) else (0,))]
    # escaped spellings of every hostile name (stored `\\x2e\\x2e`, `\\u002f...`, mixed) for file / dir / symlink nodes
    if ctx.thorough():
        hl += ["hostile2 %d %d %d %d" % (k, n, sp, d) for k in range(3) for n in range(9) for sp in range(5) for d in (0, 1)]
    else:
        hl += ["hostile2 %d %d 0 %d" % (k, n, rng.randint(0, 1)) for k in range(3) for n in range(9)]
        hl += ["hostile2 %d %d %d %d" % (rng.randint(0, 2), rng.randint(0, 8), rng.randint(1, 4), rng.randint(0, 1)) for _ in range(24)]
    if ctx.replay:
        rp = json.load(open(ctx.replay)); hl = [rp["witness"]["case"]] if rp["witness"].get("case", "").startswith("hostile") else []
    for case, out in zip(hl, run_lines(impl, hl, "h")):
        v = json.loads(out); evals += 1
        h("hostile_" + v["outcome"])
        if v["outcome"] in ("harness-error", "harness-panic"):
            viol.append(("harness failed on a hostile-name case: " + v.get("msg", ""), {"case": case}, None)); continue
        if v["outside"]:
            viol.append(("restore of a tree with a hostile node name (%s) touched paths outside the destination: %s" % (v["desc"], ", ".join(x["p"] for x in v["outside"])),
                         {"case": case, "result": v, "how_to_replay": "echo '<case>' | .cache/target*/debug/c14 -"}, "hostile-node-name-escapes-destination"))
        if len(samples) < 2 or (case.startswith("hostile2") and len(samples) < 4): samples.append({"case": case, "outcome": v["outcome"], "outside": v["outside"], "desc": v["desc"]})
        # the model's prediction for the code as extracted: a refused name is an error
        h("hostile_escaped_spelling" if case.startswith("hostile2") else "hostile_literal")
        if meta and meta["c_names"] and v.get("hostile_name") and v["outcome"] != "err":
            viol.append(("model/impl mismatch: the model (name check present) predicts an error for a hostile node name, the implementation returned " + v["outcome"], {"case": case, "result": v}, "__corr__"))

    # ---------------------------------------------------------------- B. model correspondence + oracle
    nmodel = 6000 if ctx.thorough() else 600
    cases = [gen_sibling_case(rng) if rng.random() < 0.3 else model_case(rng) for _ in range(nmodel)]
    if ctx.replay:
        cases = []
        if rp["witness"].get("case", "").startswith("model"):
            cases = [{"line": rp["witness"]["case"], "replayed": True}]
    mism = []
    nontriv = set()
    if cases and model:
        io = run_lines(impl, [c["line"] for c in cases], "mi", par=4)
        mo = run_lines(model, [c["line"] for c in cases], "mm", par=1)
        for c, a, b in zip(cases, io, mo):
            evals += 1
            v = json.loads(a)
            mout, mstate, mreads = b.split("|")
            if c.get("replayed"):
                print("impl:", a); print("model:", b); continue
            if v["outcome"] in ("harness-error", "harness-panic"):
                viol.append(("harness failed: " + v.get("msg", ""), {"case": c["line"]}, None)); continue
            h("model_impl_" + v["outcome"])
            if c.get("sibling_shape"): h("model_sibling_shape")
            lc = link_clash(c) and not c["o"][0]
            if lc: h("model_skipped_symlink_followed")
            if not v["to_packs_ok"] or mreads != "reads_in_to_packs":
                viol.append(("packs read while restoring are not among RestorePlan::to_packs", {"case": c["line"], "impl": v, "model": b}, "to-packs-misses-a-read"))
            if not lc:
                # an entry kept where the snapshot has a symlink gets the symlink node's mtime (lutimes on
                # whatever is there); symlink nodes carry no mtime in the model: blank that field
                snapk = {"/".join(map(str, e["p"])): e["k"] for e in c["snap"]}
                keptl = {"/".join(map(str, e["p"])) for e in c["dest"] if not c["o"][0] and e["k"] != "l" and snapk.get("/".join(map(str, e["p"]))) == "l"}
                def blank(st):
                    out = []
                    for tok in st.split():
                        f = tok.split(":")
                        if f[0] in keptl and len(f) > 2: f[2] = "*"
                        out.append(":".join(f))
                    return " ".join(out)
                same = (v["outcome"] == mout) and (v["outcome"] != "ok" or blank(v["state"]) == blank(mstate))
                if not same:
                    mism.append({"case": c["line"], "impl": v["outcome"] + "|" + v["state"], "model": mout + "|" + mstate})
            if v["outcome"] == "ok":
                bad, cls = model_oracle(c, v["state"])
                if c["dest"] and c["snap"]: nontriv.add(c["line"])
                for k in cls:
                    if cls[k]: h("model_class_" + k)
                if cls["symlink_kept"]:
                    ctx.violation("existing symlink with another target kept", {"case": c["line"], "impl": v}, signature=SIG_LINK)
                if cls["clash"] and not c["o"][0]:
                    ctx.violation("destination entry of another type kept without delete; snapshot path not restored", {"case": c["line"], "impl": v}, signature=SIG_CLASH)
                if bad:
                    viol.append(("restore result violates the property: " + bad[0], {"case": c["line"], "impl": v, "violated": bad[:5],
                                 "how_to_replay": "echo '<case>' | .cache/target*/debug/c14 -   (and build/C14/model for the model's answer)"}, "model-case-oracle"))
            elif not c["o"][0] and any(e["p"] in {x["p"] for x in c["snap"]} and e["k"] != {x["p"]: x for x in c["snap"]}[e["p"]]["k"] for e in c["dest"]):
                ctx.violation("restore aborts (%s) on a destination entry of another type without delete" % v["outcome"],
                              {"case": c["line"], "impl": v}, signature=SIG_CLASH)
                h("model_abort_by_clash")
            else:
                viol.append(("restore aborted (%s): %s" % (v["outcome"], v["msg"][:200]), {"case": c["line"], "impl": v}, "abort-without-clash"))
            if len(samples) < 5 and v["outcome"] == "ok" and c["dest"] and len(c["line"]) < 200:
                samples.append({"case": c["line"], "impl": v["state"], "model": mstate})

    # ---------------------------------------------------------------- C. end-to-end oracle
    ne2e = 1500 if ctx.thorough() else 80
    e2e = []
    for i in range(ne2e):
        if rng.random() < 0.35:
            # sibling-name clusters (dir x + x-y, x.z, `x y`, x!, x0 ...), destination = snapshot (+ mutations) + extras
            # inside x, delete mostly on
            e2e.append("e2e %d %d %d %d %d %d %d %d 1" % (rng.randint(1, 10 ** 9), 1 if rng.random() < 0.7 else 0, rng.randint(0, 1), rng.randint(0, 1), rng.randint(0, 1),
                                                         rng.choice([1, 1, 1, 2, 2, 3]), rng.choice([0, 512, 1024, 2048]), rng.choice([0, 0, 1])))
        else:
            e2e.append("e2e %d %d %d %d %d %d %d %d" % (rng.randint(1, 10 ** 9), rng.randint(0, 1), rng.randint(0, 1), rng.randint(0, 1), rng.randint(0, 1),
                                                       rng.choice([0, 1, 2, 2, 2, 2, 3]), rng.choice([0, 512, 1024, 2048]), rng.choice([0, 0, 1])))
    corpus = os.path.join(ctx.pdir, "corpus.txt")
    if os.path.exists(corpus):
        e2e = [l.split("#")[0].strip() for l in open(corpus) if l.split("#")[0].strip().startswith("e2e")] + e2e
    if ctx.replay:
        e2e = [rp["witness"]["case"]] if rp["witness"].get("case", "").startswith("e2e") else []
    for case, out in zip(e2e, run_lines(impl, e2e, "e", par=4, timeout=1500)):
        v = json.loads(out); evals += 1
        t = case.split()
        delete, verify, sparse = int(t[2]), int(t[3]), int(t[4])
        if v["outcome"] in ("harness-error", "harness-panic"):
            viol.append(("harness failed: " + v.get("msg", ""), {"case": case}, None)); continue
        h("e2e_" + v["outcome"]); h("e2e_destkind_" + t[6])
        if len(t) > 9 and t[9] == "1": h("e2e_sibling_shape")
        h("e2e_existing_files", v["existing_files"]); h("e2e_extras", v["extras"]); h("e2e_stale", v["stale"])
        if v["npre"] and v["nsnap"]: nontriv.add(case)
        clash_nodel = (not delete) and bool(v["pre_clash"])
        link_cl = clash_nodel and any(":l>" in x for x in v["pre_clash"])
        if not v["to_packs_ok"]:
            viol.append(("packs read while restoring are not among RestorePlan::to_packs", {"case": case}, "to-packs-misses-a-read"))
        if v["outcome"] != "ok":
            if clash_nodel:
                h("e2e_abort_by_clash")
                ctx.violation("restore aborts (%s) on a destination entry of another type without delete" % v["outcome"], {"case": case, "msg": v["msg"][:300]}, signature=SIG_CLASH)
            else:
                sig = "hardlink-over-existing-file" if "hardlink" in v["msg"] else "abort-without-clash"
                viol.append(("restore aborted (%s): %s" % (v["outcome"], " ".join(v["msg"].split())[:300]), {"case": case, "result": v}, sig))
            continue
        for d in v["diffs"]:
            if d["clash"] and not delete:
                h("e2e_diff_by_clash"); ctx.violation("destination entry of another type kept without delete; snapshot path not restored", {"case": case, "diff": d}, signature=SIG_CLASH); continue
            if d["what"] == "unexpected-entry" and link_cl:
                h("e2e_diff_by_clash"); ctx.violation("file created through a dangling destination symlink (entry of another type, no delete)", {"case": case, "diff": d}, signature=SIG_CLASH); continue
            if d["what"] == "snapshot-path-target" and d["pre"] == "l" and not delete:
                h("e2e_symlink_kept"); ctx.violation("existing symlink with another target kept", {"case": case, "diff": d}, signature=SIG_LINK); continue
            sig = "other"
            if d["what"] == "snapshot-path-content" and sparse and d["only_where_snap_zero"]: sig = "sparse-hole-over-existing-data"
            if d["what"] == "snapshot-path-missing" and delete and d["snap"] == "d": sig = "delete-nondir-for-dir-not-created"
            viol.append(("after restore %s: %s %s (before: %s, snapshot: %s, after: %s)" % (d["p"], d["what"], d["detail"], d["pre"], d["snap"], d["post"]),
                         {"case": case, "diff": d, "options": {"delete": delete, "verify_existing": verify, "sparse": sparse},
                          "how_to_replay": "echo '<case>' | .cache/target*/debug/c14 -"}, sig))
        for d in v["outside"]:
            if link_cl:
                h("e2e_outside_by_symlink_clash"); ctx.violation("restore wrote through a destination symlink that stands where the snapshot has a file/dir (no delete): " + d["p"], {"case": case, "outside": d}, signature=SIG_CLASH); continue
            viol.append(("path outside the destination %s: %s" % (d["what"], d["p"]), {"case": case, "outside": v["outside"]}, "outside-touched"))
        if len(samples) < 8 and v["npre"] > 3: samples.append({"case": case, "outcome": v["outcome"], "nsnap": v["nsnap"], "npre": v["npre"], "diffs": len(v["diffs"])})

    cov.update({"evaluations": evals, "distinct_nontrivial": len(nontriv),
                "rule": "hostile: 10 crafted trees (.., absolute, separators; file/dir/symlink nodes) x delete, and 9 hostile names x file/dir/symlink node x 5 escaped spellings of the stored name (\\x2e, \\u002e, \\U0000002e, mixed, separators only); 30% of the model cases and 35% of the e2e trees contain a directory x with siblings x-y, x.z, `x y`, x!, x0 (files and dirs, depth 0-2) and a destination = snapshot + extras inside x; model cases: snapshots of <=6 entries over 6 names, depth<=3, files of 0-7 bytes in fixed chunks of 1-3 bytes (zero blobs frequent) x destinations derived by mutation (identical, stale, other bytes/mtime, shorter, longer, other type, missing, extras, unrelated tree) x delete/verify/sparse; e2e: seeded trees (<=18 entries, files <=12 KB, rabin or fixed 512-2048 chunks, symlinks, hard links) x destination kinds x option matrix incl. no_ownership; non-trivial = snapshot and destination both non-empty; distinct by case text",
                "samples": samples, "distribution": hist, "traces_validated_against_impl": len(cases) + len(hl),
                "disagreements_checked": len(mism) + len(viol), "model_impl_mismatches": len(mism), "oracle_violations": len([x for x in viol if x[2] != "__corr__"]),
                "code_cfg": meta})
    real = [x for x in viol if x[2] != "__corr__"]
    # report a few of every source (hostile / model / e2e), not only the first ones found
    shown, per = [], {}
    for x in real:
        k = str(x[1].get("case", "")).split(" ")[0]
        per[k] = per.get(k, 0) + 1
        if per[k] <= 15: shown.append(x)
    for what, wit, sig in shown:
        ctx.violation(what, wit, signature=sig)
    corr = [x for x in viol if x[2] == "__corr__"]
    if (mism or corr) and not real:
        first = mism[0] if mism else corr[0][1]
        ctx.violation("correspondence broken: extracted model of restore disagrees with the implementation (%d cases) although the property holds on every case" % (len(mism) + len(corr)),
                      {"correspondence": "props/C14 Model.restore code_cfg vs Repository::prepare_restore + restore", "first": first}, no_input=True)
    vlib.finish_broken_obligations(ctx)
