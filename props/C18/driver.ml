(* prelude: zn *)
(* C18 driver: same case lines as harness/src/bin/c18.rs (modes apply, sizer, rabin, repo)
   plus `predict` (model-side view of a smoke-run line).  Parsing/printing only. *)
let z10 = z_of_int 10
let z_of_string s =
  let neg = String.length s > 0 && s.[0] = '-' in
  let acc = ref Z0 in
  String.iter (fun ch -> if ch <> '-' then acc := Z.add (Z.mul !acc z10) (z_of_int (Char.code ch - 48))) s;
  if neg then (match !acc with Zpos p -> Zneg p | z -> z) else !acc
let rec string_of_nonneg z =
  if Z.ltb z z10 then string_of_int (int_of_z z)
  else string_of_nonneg (Z.div z z10) ^ string_of_int (int_of_z (Z.modulo z z10))
let string_of_z z = match z with Zneg p -> "-" ^ string_of_nonneg (Zpos p) | _ -> string_of_nonneg z

let opt_tok t = let s = next t in if s = "-" then None else Some (z_of_string s)
let nidx n = int_of_n n
(* a record given as one token per field, in the order of the extracted field list *)
let read_rec fields t : (n -> z option) =
  let vals = List.map (fun f -> (nidx f, opt_tok t)) fields in
  fun g -> (try List.assoc (nidx g) vals with Not_found -> None)
let read_config t = read_rec cfields t
let read_opts t = read_rec ofields t
let show_opt = function None -> "-" | Some z -> string_of_z z
let show_config (c : n -> z option) = String.concat "," (List.map (fun g -> show_opt (c g)) cfields)
let show_outcome = function Done -> "ok" | Refused e -> "err:" ^ string_of_int (nidx e) | Panic -> "panic"

let apply_case line =
  let t = toks line in
  let stored = ref (read_config t) in
  let n = ni t in
  let out = ref [] in
  for _ = 1 to n do
    let o = read_opts t in
    let (nw, r) = apply_mut o !stored in
    (match r with
     | Done -> out := ("ok " ^ show_config nw) :: !out; stored := nw
     | Refused _ -> out := (show_outcome r ^ " " ^ show_config nw) :: !out
     | Panic -> out := "panic" :: !out)
  done;
  out := ("stored " ^ show_config !stored) :: !out;
  String.concat " | " (List.rev !out)

let ob = function None -> "panic" | Some true -> "1" | Some false -> "0"
let sizer_case line =
  let t = toks line in
  let c = read_config t in
  let data = ni t <> 0 in
  let cur = z_of_string (next t) in
  let size = z_of_string (next t) in
  let s = sizer_of_config c data cur in
  Printf.sprintf "%s %s %s"
    (match pack_size s with None -> "panic" | Some z -> string_of_z z)
    (ob (is_too_small s size)) (ob (is_too_large s size))

let rabin_case line =
  let t = toks line in
  let cs = z_of_string (next t) in let mn = z_of_string (next t) in let mx = z_of_string (next t) in
  show_outcome (check_rabin_params cs mn mx)

let show_stored = function None -> "none" | Some c -> show_config c
let open_str h has_hot st =
  match open_config h st with
  | None -> "open-none"
  | Some c -> if open_raw_ok c has_hot then show_config c else "open-refused"

(* `hot n opts0 ..`: init_repo then apply_config per record; per step repo.config(), both stored
   files, write counts, and the config seen by the three ways of opening *)
let repo_case line =
  let t = toks line in
  let hot = ni t = 1 in
  let n = ni t in
  let o0 = read_opts t in
  match init_repo hot o0 Z0 Z0 with
  | (_, Panic) -> "init:panic"
  | (_, Refused e) -> Printf.sprintf "init:err:%d files=0" (nidx e)
  | ((st0, mem0), Done) ->
    let snap cls mem st w =
      Printf.sprintf "%s %s %s %s w=%d,%d %s %s %s" cls (show_config mem) (show_stored st.st_cold)
        (if hot then show_stored st.st_hot else "none") w (if hot then w else 0)
        (if hot then open_str OpenBoth true st else "na") (open_str OpenColdAlone false st)
        (if hot then open_str OpenOnlyCold true st else "na") in
    if not (open_raw_ok mem0 hot) then "init:err:open_raw" else begin
    let st = ref st0 in
    let mem = ref mem0 in
    let w = ref 1 in
    let out = ref [snap "init:ok" mem0 st0 1] in
    for _ = 2 to n do
      let o = read_opts t in
      let ((st', mem'), r) = apply_config hot o !mem !st in
      st := st'; mem := mem';
      let cls = match r with RChanged -> incr w; "changed" | RSame -> "same" | RRefused e -> "err:" ^ string_of_int (nidx e) | RPanic -> "panic" in
      out := snap cls !mem !st !w :: !out
    done;
    String.concat " | " (List.rev ("end=ok" :: !out)) end

let read_limit t =
  let k = ni t in let v = z_of_string (next t) in
  match k with 0 -> Unlimited | 1 -> Size v | _ -> Percentage v

(* smoke line: opts0 has2 [opts1] max_repack max_unused instant repack_all seed size_a size_b *)
let predict_case line =
  let t = toks line in
  let o0 = read_opts t in
  let o1 = if ni t = 1 then Some (read_opts t) else None in
  let max_repack = read_limit t in
  let max_unused = read_limit t in
  let _instant = ni t in
  let repack_all = ni t = 1 in
  let lim =
    let u = z_of_int 1000 in
    match max_unused_limit repack_all max_unused u u, max_repack_limit max_repack u u with
    | Some _, Some _ -> "ok" | _ -> "panic" in
  let describe c =
    let rab = cfg_chunker c = cHUNKER_RABIN in
    let mn = cfg_chunk_min_size c in
    let small = rab && (match rabin_next_arith mn (Z.add bUF_SIZE (z_of_int (-1))) mn with None -> true | Some _ -> false) in
    let sizer_ok = List.for_all (fun data -> List.for_all (fun cur ->
        let s = sizer_of_config c data (z_of_string cur) in
        pack_size s <> None && is_too_small s (z_of_int 1000) <> None && is_too_large s (z_of_int 1000) <> None)
        ["0"; "1000000"; "1000000000000"; "18446744073709551615"]) [true; false] in
    Printf.sprintf "new=%s progress=%d small_min=%d sizer=%d" (show_outcome (chunker_new c))
      (if chunker_progress c then 1 else 0) (if small then 1 else 0) (if sizer_ok then 1 else 0) in
  match init o0 Z0 Z0 with
  | (_, Panic) -> "init=panic"
  | (_, Refused e) -> Printf.sprintf "init=err:%d" (nidx e)
  | (c, Done) ->
    let s1 = "init=ok " ^ describe c in
    let s2 = match o1 with
      | None -> ""
      | Some o ->
        let ((_, c'), r) = apply_config false o c empty_store in
        (match r with RChanged -> " config=changed " ^ describe c' | RSame -> " config=same"
                    | RRefused e -> Printf.sprintf " config=refused:%d" (nidx e) | RPanic -> " config=panic") in
    s1 ^ s2 ^ " lim=" ^ lim

let consts_case _ = Printf.sprintf "%s %s" (string_of_z zSTD_MIN) (string_of_z zSTD_MAX)

let () =
  let mode = if Array.length Sys.argv > 2 then Sys.argv.(2) else "apply" in
  main_loop (match mode with
    | "sizer" -> sizer_case | "rabin" -> rabin_case | "repo" -> repo_case
    | "predict" -> predict_case | "consts" -> consts_case | _ -> apply_case)
