"""C18 — accepted configurations work; refused or unnamed settings change nothing.
Stages: regenerate Extracted.v (statement shapes of ConfigOptions::apply, validations,
arithmetic of check_rabin_params / PackSizer / decide_repack limits); build + audit the Coq
theorems; correspondence of the extracted model with the real ConfigOptions::apply,
Repository::init / apply_config (stored config re-read from the backend), PackSizer and
check_rabin_params; smoke runs (init + backup + check + restore + config change + prune)
under catch_unwind.  Oracle = the property itself, evaluated on the implementation's results."""
import os, sys, json
import vlib
from vlib import ROOT, REPO, log

U32, U64 = 2 ** 32 - 1, 2 ** 64 - 1
SIZES = [0, 1, 2, 3, 63, 64, 1000, 1024, 4095, 4096, 65536, 2 ** 19, 2 ** 20, 2 ** 22, 2 ** 23, 2 ** 31, U32, U32 + 1, 2 ** 40, 2 ** 63, U64]
POW2 = [1, 2, 64, 1024, 4096, 8192, 2 ** 16, 2 ** 20, 2 ** 22, 2 ** 32, 2 ** 63]
COMP = [0, 1, 3, 19, 22, 23, -1, -7, -8, -131072, -131073, 2 ** 31 - 1, -2 ** 31]
GROW = [0, 1, 2, 32, 65536, 2 ** 31, U32]
MINP = [0, 1, 30, 99, 100, 101, 1000, U32]
MAXP = [0, 1, 50, 99, 100, 101, 200, 1000, U32]
VERS = [1, 2, 2, 2, 0, 3, U32]

OFIELDS = ["set_version", "set_chunker", "set_chunk_size", "set_chunk_min_size", "set_chunk_max_size",
           "set_compression", "set_append_only", "set_treepack_size", "set_treepack_size_limit",
           "set_treepack_growfactor", "set_datapack_size", "set_datapack_growfactor", "set_datapack_size_limit",
           "set_min_packsize_tolerate_percent", "set_max_packsize_tolerate_percent", "set_extra_verify"]
CFIELDS = ["version", "id", "chunker", "chunker_polynomial", "chunk_size", "chunk_min_size", "chunk_max_size",
           "is_hot", "append_only", "compression", "treepack_size", "treepack_growfactor", "treepack_size_limit",
           "datapack_size", "datapack_growfactor", "datapack_size_limit", "min_packsize_tolerate_percent",
           "max_packsize_tolerate_percent", "extra_verify"]


def pool_for_opt(f):
    if f == "set_version": return VERS
    if f == "set_chunker": return [0, 1]
    if f in ("set_chunk_size", "set_chunk_min_size", "set_chunk_max_size"): return SIZES + POW2
    if f == "set_compression": return COMP
    if f in ("set_append_only", "set_extra_verify"): return [0, 1]
    if f.endswith("growfactor"): return GROW
    if f == "set_min_packsize_tolerate_percent": return MINP
    if f == "set_max_packsize_tolerate_percent": return MAXP
    return SIZES


def gen_opts(rng, p_set=0.3, no_append=False):
    o = {}
    style = rng.random()
    for f in OFIELDS:
        if rng.random() < (p_set if style > 0.15 else 0.8):
            o[f] = rng.choice(pool_for_opt(f))
    if rng.random() < 0.5 and ("set_chunk_size" in o or rng.random() < 0.2):
        # coherent Rabin triple: min <= size <= max, power of two
        cs = rng.choice(POW2)
        o["set_chunk_size"] = cs
        if rng.random() < 0.7: o["set_chunk_min_size"] = rng.choice([cs, cs // 2, max(cs // 2, 1), 0, 64, cs + 1])
        if rng.random() < 0.7: o["set_chunk_max_size"] = min(U64, rng.choice([cs, cs * 2, cs * 8, U64, cs - 1]))
    if no_append: o.pop("set_append_only", None)
    return o


def opts_line(o):
    return " ".join(str(o[f]) if f in o else "-" for f in OFIELDS)


def gen_config(rng):
    c = {"version": rng.choice([2, 2, 2, 1, 1, 0, 3]), "id": rng.randint(1, 2 ** 40), "chunker_polynomial": rng.randint(1, 2 ** 53)}
    def maybe(f, pool, p=0.35):
        if rng.random() < p: c[f] = rng.choice(pool)
    maybe("chunker", [0, 1])
    for f in ("chunk_size", "chunk_min_size", "chunk_max_size"): maybe(f, [x for x in SIZES + POW2 if x <= U64])
    if rng.random() < 0.4:
        cs = rng.choice(POW2); c["chunk_size"] = cs
        c["chunk_min_size"] = rng.choice([cs, cs // 2, 0]); c["chunk_max_size"] = min(U64, rng.choice([cs, cs * 4, U64]))
    maybe("is_hot", [0, 1], 0.15); maybe("append_only", [0, 1], 0.2)
    maybe("compression", [x for x in COMP if -2 ** 31 <= x < 2 ** 31])
    for f in ("treepack_size", "treepack_size_limit", "datapack_size", "datapack_size_limit"): maybe(f, [x for x in SIZES if x <= U32])
    maybe("treepack_growfactor", GROW); maybe("datapack_growfactor", GROW)
    maybe("min_packsize_tolerate_percent", MINP); maybe("max_packsize_tolerate_percent", MAXP)
    maybe("extra_verify", [0, 1], 0.5)
    return c


def config_line(c):
    return " ".join(str(c[f]) if f in c else "-" for f in CFIELDS)


def parse_cfg(s):
    return dict(zip(CFIELDS, s.split(",")))


def run_lines(exe, lines, mode, timeout=1500):
    if not lines: return []
    import time; _t0 = time.time()
    path = os.path.join(vlib.BUILD, "C18", "in_%d_%s.txt" % (os.getpid(), mode))
    open(path, "w").write("\n".join(lines) + "\n")
    rc, out, err = vlib.sh2([exe, path, mode], timeout=timeout)
    os.remove(path)
    res = out.splitlines()
    if rc != 0 or len(res) != len(lines):
        raise RuntimeError("%s %s failed rc=%s (%d of %d lines)\n%s" % (exe, mode, rc, len(res), len(lines), err[-2000:]))
    log("%s %s: %d lines in %.1fs" % (os.path.basename(exe), mode, len(lines), time.time() - _t0))
    return res


def run_lines_par(exe, lines, mode, k=3, timeout=1500):
    """the same as run_lines, the lines split over k processes (order of results preserved)"""
    if len(lines) < 2 * k: return run_lines(exe, lines, mode, timeout)
    from concurrent.futures import ThreadPoolExecutor
    chunks = [lines[i::k] for i in range(k)]
    def one(ic):
        i, c = ic
        path = os.path.join(vlib.BUILD, "C18", "in_%d_%s_%d.txt" % (os.getpid(), mode, i))
        open(path, "w").write("\n".join(c) + "\n")
        rc, out, err = vlib.sh2([exe, path, mode], timeout=timeout)
        os.remove(path)
        res = out.splitlines()
        if rc != 0 or len(res) != len(c):
            raise RuntimeError("%s %s failed rc=%s (%d of %d lines)\n%s" % (exe, mode, rc, len(res), len(c), err[-2000:]))
        return res
    import time; t0 = time.time()
    with ThreadPoolExecutor(k) as ex: parts = list(ex.map(one, enumerate(chunks)))
    log("%s %s: %d lines in %.1fs (%d processes)" % (os.path.basename(exe), mode, len(lines), time.time() - t0, k))
    res = [None] * len(lines)
    for i, p in enumerate(parts): res[i::k] = p
    return res


def gen_limit(rng):
    k = rng.choice([0, 1, 1, 2, 2, 2, 2])
    if k == 0: return (0, 0)
    if k == 1: return (1, rng.choice([0, 1, 1000, 10 ** 6, 2 ** 40, U64]))
    return (2, rng.choice([0, 1, 5, 10, 50, 99, 100, 101, 150, 10 ** 6, 2 ** 63, U64]))


def gen_smoke_opts(rng):
    """mostly accepted configurations, each field unset / boundary / interior / huge"""
    o = {}
    r = rng.random()
    if r < 0.25:
        o["set_chunker"] = 1; o["set_chunk_size"] = rng.choice([511, 8000, 65536, 2 ** 20, 2 ** 40, U64, 0])
    elif r < 0.6:
        cs, mn, mx = rng.choice([(8192, 4096, 16384), (8192, 8192, 8192), (4096, 4096, 2 ** 20), (2 ** 20, 2 ** 19, 2 ** 23),
                                 (2 ** 16, 4095, 2 ** 17), (2 ** 63, 4096, U64), (65536, 65536, 65536),
                                 (1024, 64, 2048), (1024, 10, 2048), (1, 1, 1), (0, 0, 0), (4096, 8192, 8192)])
        o["set_chunk_size"], o["set_chunk_min_size"], o["set_chunk_max_size"] = cs, mn, mx
        if rng.random() < 0.5: o["set_chunker"] = 0
    if rng.random() < 0.5: o["set_compression"] = rng.choice([0, 1, 3, 22, -1, -7, -131072, 23, -131073])
    for f in ("set_treepack_size", "set_treepack_size_limit", "set_datapack_size", "set_datapack_size_limit"):
        if rng.random() < 0.3: o[f] = rng.choice([0, 1, 4096, 100000, 2 ** 22, U32, U32 + 1])
    for f in ("set_treepack_growfactor", "set_datapack_growfactor"):
        if rng.random() < 0.35: o[f] = rng.choice(GROW)
    if rng.random() < 0.3: o["set_min_packsize_tolerate_percent"] = rng.choice([0, 30, 100, 101])
    if rng.random() < 0.3: o["set_max_packsize_tolerate_percent"] = rng.choice([0, 100, 101, 1000, U32, 50])
    if rng.random() < 0.3: o["set_extra_verify"] = rng.choice([0, 1])
    if rng.random() < 0.15: o["set_version"] = rng.choice([2, 2, 1, 3])
    return o


def run(ctx):
    rng, cov = ctx.rng, ctx.coverage
    meta, xerr = vlib.regen_extracted("C18")
    r = vlib.proof_stage(ctx)
    if xerr:
        r["ok"] = False
        r["failures"].append("fact extraction (config.rs / configfile.rs / rabin.rs / packer.rs / prune.rs / init.rs) failed: " + xerr)
    cov["trusted_base"] += ["props/C18/extract.py (translator of the statements of ConfigOptions::apply, of check_rabin_params, PackSizer and decide_repack limit expressions into the expr/cond language of ModelBase.v)",
                            "zstd compression level range -131072..=22 (constant in Extracted.v; boundary values are part of every run's correspondence cases)"]
    ctx.assumptions += [
        "usize is 64 bits (u64 -> usize try_into never fails); values of ConfigFile/ConfigOptions fields are values of their Rust types (config_wf / opts_wf)",
        "prune limits: used + unused blob bytes of the repository fit u64",
        "apply_config's atomicity is the clone / apply / compare / save discipline (its shape is checked by the extractor; behaviour by re-reading the stored config after every step); save_config itself (serialisation, backend write) is outside the model",
        "chunker: only the parameter-dependent arithmetic is modelled here (check_rabin_params, split mask, min_size - leftover, len - 64, fixed size > 0); the iterator loop belongs to C06",
        "PackSizer::add_size (current_size += added, u64) is not modelled: overflow needs more than 2^64 bytes written",
        "smoke runs observe panics of worker threads only as far as they surface in the calling thread or in a failed stage",
    ]
    try:
        model = vlib.build_model("C18")
    except RuntimeError as e:
        model = None
        if r["ok"]:
            r["ok"] = False; r["failures"].append("extracted model no longer builds: " + str(e)[-500:])
    impl = vlib.build_harness("c18")
    T = ctx.thorough()
    errname = {}
    shapes = []
    if meta:
        errname = {i: "err:%s:%s" % (k, g) for i, (k, g) in enumerate(meta["errors"])}
        shapes = [(f, g) for (f, g, how) in meta["shapes"] if f]
    # the oracle's notion of "the options naming a setting" is the public API convention
    # set_<field> -> <field>; it does not depend on the extraction (which may fail on an edited tree)
    api_shapes = [(f, f[4:]) for f in OFIELDS]
    if meta and sorted(shapes) != sorted(api_shapes) and r["ok"]:
        r["ok"] = False; r["failures"].append("the statements of ConfigOptions::apply no longer map set_<field> to <field>: %s" % sorted(set(shapes) ^ set(api_shapes)))
    shapes = api_shapes
    named_by = {}
    for f, g in shapes: named_by.setdefault(g, []).append(f)

    def canon_model(s):
        import re
        return re.sub(r"\berr:(\d+)\b", lambda m: errname.get(int(m.group(1)), "err:?" + m.group(1)), s)

    viol, mism, hist, samples = [], [], {}, []
    nontriv = set()
    def bump(k): hist[k] = hist.get(k, 0) + 1

    # ---------------------------------------------------------------- corpus / replay
    corpus = {"apply": [], "repo": [], "sizer": [], "rabin": [], "smoke": []}
    cp = os.path.join(ctx.pdir, "corpus.txt")
    if os.path.exists(cp):
        for ln in open(cp):
            ln = ln.split("#")[0].strip()
            if ln:
                m, _, rest = ln.partition(" ")
                corpus[m].append(rest)
    only = None
    if ctx.replay:
        rp = json.load(open(ctx.replay))
        only = rp["witness"].get("mode")
        corpus = {k: [] for k in corpus}
        if only: corpus[only] = [rp["witness"]["case"]]

    def want(mode, n):
        return [] if (only and only != mode) else None if n is None else n

    # ---------------------------------------------------------------- 1. ConfigOptions::apply
    n_apply = 0 if only and only != "apply" else (20000 if T else 2500)
    lines, parsed = list(corpus["apply"]), [None] * len(corpus["apply"])
    while len(lines) < n_apply + len(corpus["apply"]) and not (only == "apply"):
        c = gen_config(rng)
        steps = [gen_opts(rng, rng.choice([0.1, 0.3, 0.3, 0.6])) for _ in range(rng.choice([1, 1, 2, 3, 4]))]
        lines.append(config_line(c) + " %d " % len(steps) + " ".join(opts_line(o) for o in steps))
        parsed.append((c, steps))
    io = run_lines(impl, lines, "apply")
    mo = [canon_model(x) for x in run_lines(model, lines, "apply")] if model else [None] * len(lines)
    for ln, a, b in zip(lines, io, mo):
        toks = ln.split()
        stored = dict(zip(CFIELDS, toks[:19]))
        nst = int(toks[19])
        parts = a.split(" | ")
        for k in range(nst):
            o = dict(zip(OFIELDS, toks[20 + 16 * k: 36 + 16 * k]))
            res = parts[k]
            if res == "panic":
                bump("apply_panic")
                viol.append(("ConfigOptions::apply panics", "apply", ln, a, "step %d" % k, None)); break
            cls, _, cfgs = res.partition(" ")
            new = parse_cfg(cfgs)
            bump("apply_ok" if cls == "ok" else "apply_refused")
            if cls == "ok" and any(v != "-" for v in o.values()): nontriv.add(ln)
            # frame: a field none of whose options is given keeps its value (accepted or not)
            for g in CFIELDS:
                if all(o.get(f, "-") == "-" for f in named_by.get(g, [])) and new[g] != stored[g]:
                    viol.append(("a configuration change altered a setting it does not name: %s" % g, "apply", ln, a,
                                 "step %d: %s was %s, now %s, options naming it: %s" % (k, g, stored[g], new[g], named_by.get(g, [])), None))
            if cls == "ok":
                # named settings are set; version rules
                for f, g in shapes:
                    if o[f] != "-" and new[g] != o[f]:
                        viol.append(("an accepted change did not store the named setting %s" % f, "apply", ln, a, "step %d" % k, None))
                if o["set_version"] != "-" and (int(o["set_version"]) not in (1, 2) or int(o["set_version"]) < int(stored["version"])):
                    viol.append(("version downgrade or unsupported version accepted", "apply", ln, a, "step %d" % k, None))
                stored = new
        if parts[-1] != "stored " + ",".join(stored[g] for g in CFIELDS) and "panic" not in a:
            viol.append(("stored configuration differs from the last accepted one", "apply", ln, a, parts[-1], None))
        if b is not None and a != b:
            mism.append(("apply", ln, a, b))
        if len(samples) < 2 and nst == 2 and " err:" in a: samples.append({"mode": "apply", "case": ln, "impl": a, "model": b})

    # ---------------------------------------------------------------- 2. init / apply_config on a repository
    # plain and hot/cold repositories; both stored config files are decoded after every step and the
    # repository is re-opened in every way a user can (both parts, cold part alone, open_only_cold)
    n_repo = 0 if only and only != "repo" else (3000 if T else 400)
    lines = list(corpus["repo"])
    while len(lines) < n_repo + len(corpus["repo"]) and not (only == "repo"):
        first = gen_smoke_opts(rng) if rng.random() < 0.7 else gen_opts(rng, 0.2)
        if rng.random() < 0.15: first["set_append_only"] = rng.choice([0, 1])
        steps = [first] + [gen_opts(rng, rng.choice([0.08, 0.2, 0.4])) for _ in range(rng.choice([1, 2, 3, 5]))]
        lines.append("%d %d " % (rng.randint(0, 1), len(steps)) + " ".join(opts_line(o) for o in steps))
    io = run_lines_par(impl, lines, "repo", 4)
    mo = [canon_model(x) for x in run_lines(model, lines, "repo")] if model else [None] * len(lines)
    def canon_repo(a):
        import re
        return re.sub(r"open-err:\S+", "open-refused", a)
    for ln, a, b in zip(lines, io, mo):
        toks = ln.split()
        hot = toks[0] == "1"
        tag = "hot" if hot else "plain"
        parts = a.split(" | ")
        def V(what, detail): viol.append((what, "repo", ln, a, detail, None))
        if parts[0] == "init:panic":
            bump("init_panic"); V("Repository::init panics", ""); continue
        if parts[0].startswith("init:err"):
            bump("init_refused_" + tag)
            if not parts[0].endswith("files=0"): V("a refused initialisation wrote files", "")
        else:
            bump("init_ok_" + tag)
            prev = None
            for k, p in enumerate(parts[:-1]):
                t = p.split(" ")
                if len(t) != 8:
                    V("malformed harness output", p); break
                cls, mem, cold, hotc, w, o_both, o_alone, o_only = t
                if cls == "panic":
                    V("apply_config panics", "step %d" % k); break
                bad = [x for x in (cold, hotc) if x.startswith("decode-")]
                if bad:
                    V("after %s a stored configuration file cannot be decoded: %s" % ("init" if k == 0 else "a configuration change", bad[0][:120]), "step %d" % k); break
                failed_open = [(nm, x) for nm, x in (("both parts", o_both), ("cold part alone", o_alone), ("open_only_cold", o_only)) if x.startswith("open-")]
                for nm, x in failed_open:
                    V("after %s the repository cannot be opened (%s): %s" % ("init" if k == 0 else "an accepted configuration change", nm, x[:110]),
                      "step %d: stored cold=%s hot=%s" % (k, cold, hotc))
                M, C = parse_cfg(mem), parse_cfg(cold)
                H = parse_cfg(hotc) if hot else None
                o = dict(zip(OFIELDS, toks[2 + 16 * k: 18 + 16 * k]))
                # what is stored: cold file = repo.config() without hot marker, hot copy = with marker
                if C["is_hot"] != "-": V("the stored cold config carries the hot marker", "step %d: is_hot=%s" % (k, C["is_hot"]))
                if hot and H["is_hot"] != "1": V("the stored hot config lacks the hot marker", "step %d" % k)
                if (hotc == "none") != (not hot): V("hot config copy present/absent against the kind of repository", "step %d" % k)
                for g in CFIELDS:
                    if g == "is_hot": continue
                    if C[g] != M[g] or (hot and H[g] != M[g]):
                        V("stored configuration differs from repo.config() in %s" % g, "step %d" % k)
                # every way of opening sees the stored settings
                for nm, oc in (("both parts", o_both), ("cold part alone", o_alone), ("open_only_cold", o_only)):
                    if oc == "na" or oc.startswith("open-"): continue
                    O = parse_cfg(oc)
                    if any(O[g] != M[g] for g in CFIELDS if g != "is_hot"):
                        V("opening the repository (%s) shows settings other than the current ones" % nm, "step %d" % k)
                if k > 0:
                    bump("cfg_" + ("refused" if cls.startswith("err") else cls) + "_" + tag)
                    pM, pC, pH, pw = prev
                    if cls != "changed" and (cold != pC or hotc != pH or w != pw):
                        V("a refused or no-op change touched a stored configuration file", "step %d" % k)
                    if cls == "changed":
                        nontriv.add(ln)
                        wc, wh = [int(x) for x in w[2:].split(",")]; pc, ph = [int(x) for x in pw[2:].split(",")]
                        if wc != pc + 1 or wh != ph + (1 if hot else 0):
                            V("an effective change wrote %d cold / %d hot config files" % (wc - pc, wh - ph), "step %d" % k)
                    # frame on the STORED files: a setting none of whose options is given is stored as before
                    PC = parse_cfg(pC); PH = parse_cfg(pH) if hot else None
                    for g in CFIELDS:
                        if all(o.get(f, "-") == "-" for f in named_by.get(g, [])):
                            if C[g] != PC[g]: V("a configuration change altered a stored setting it does not name: %s in the cold config" % g,
                                                "step %d: %s was %s, now %s" % (k, g, PC[g], C[g]))
                            if hot and H[g] != PH[g]: V("a configuration change altered a stored setting it does not name: %s in the hot config" % g,
                                                        "step %d: %s was %s, now %s" % (k, g, PH[g], H[g]))
                    if cls == "changed":
                        for f, g in shapes:
                            if o[f] != "-" and (C[g] != o[f] or (hot and H[g] != o[f])):
                                V("an effective change did not store the named setting %s" % f, "step %d" % k)
                prev = (mem, cold, hotc, w)
                if failed_open: break
            else:
                if parts[-1] != "end=ok":
                    V("an accepted configuration does not work: backup through the repository, then check --read-data / restore on the cold part alone: %s" % parts[-1][:150], parts[-1])
        if b is not None and canon_repo(a) != b: mism.append(("repo", ln, a, b))
        if len(samples) < 4 and " | err" in a and "changed" in a: samples.append({"mode": "repo", "case": ln, "impl": a, "model": b})

    # ---------------------------------------------------------------- 3. PackSizer, check_rabin_params
    n_sz = 0 if only and only != "sizer" else (20000 if T else 3000)
    lines = list(corpus["sizer"])
    while len(lines) < n_sz + len(corpus["sizer"]) and not (only == "sizer"):
        c = gen_config(rng)
        if rng.random() < 0.5:
            c["datapack_growfactor"] = rng.choice(GROW); c["treepack_growfactor"] = rng.choice(GROW)
        lines.append("%s %d %d %d" % (config_line(c), rng.randint(0, 1),
                                      rng.choice([0, 1, 4, 10 ** 6, 2 ** 32, 2 ** 40, 2 ** 62, 2 ** 63, U64, rng.randint(0, U64)]),
                                      rng.choice([0, 1, 1000, 2 ** 22, 2 ** 31, U32, rng.randint(0, U32)])))
    io = run_lines(impl, lines, "sizer")
    mo = run_lines(model, lines, "sizer") if model else [None] * len(lines)
    for ln, a, b in zip(lines, io, mo):
        bump("sizer")
        if "panic" in a: viol.append(("PackSizer arithmetic panics for a stored configuration", "sizer", ln, a, "", None))
        else: nontriv.add(ln)
        if b is not None and a != b: mism.append(("sizer", ln, a, b))
    n_rb = 0 if only and only != "rabin" else (5000 if T else 1000)
    lines = list(corpus["rabin"])
    pool = SIZES + POW2
    while len(lines) < n_rb + len(corpus["rabin"]) and not (only == "rabin"):
        cs = rng.choice(pool)
        lines.append("%d %d %d" % (cs, rng.choice(pool + [cs, cs // 2]), rng.choice(pool + [cs, min(cs * 2, U64)])))
    io = run_lines(impl, lines, "rabin")
    mo = [canon_model(x) for x in run_lines(model, lines, "rabin")] if model else [None] * len(lines)
    for ln, a, b in zip(lines, io, mo):
        bump("rabin_" + a.split(":")[0])
        if a == "panic": viol.append(("check_rabin_params panics", "rabin", ln, a, "", None))
        if b is not None and a != b: mism.append(("rabin", ln, a, b))

    # ---------------------------------------------------------------- 4. smoke runs
    n_sm = 0 if only and only != "smoke" else (300 if T else 70)
    lines = list(corpus["smoke"])
    while len(lines) < n_sm + len(corpus["smoke"]) and not (only == "smoke"):
        o0 = gen_smoke_opts(rng)
        has2 = rng.random() < 0.6
        o1 = gen_smoke_opts(rng) if has2 else None
        if o1 is not None and rng.random() < 0.3: o1 = gen_opts(rng, 0.15, no_append=True)
        mr, mu = gen_limit(rng), gen_limit(rng)
        sa = rng.choice([0, 1, 5000, 70000, 300000]); sb = rng.choice([1, 100, 20000, 150000])
        lines.append("%s %d %s%d %d %d %d %d %d %d %d %d" % (opts_line(o0), 1 if has2 else 0, (opts_line(o1) + " ") if has2 else "",
                                                            mr[0], mr[1], mu[0], mu[1], rng.randint(0, 1), rng.randint(0, 1),
                                                            rng.randint(1, 2 ** 32), sa, sb))
    io = run_lines_par(impl, lines, "smoke", 4, timeout=3000)
    mo = [canon_model(x) for x in run_lines(model, lines, "predict")] if model else [None] * len(lines)
    for ln, a, b in zip(lines, io, mo):
        st = [x.split("=", 1) for x in a.split(" ") if "=" in x]
        pred = dict(x.split("=", 1) for x in (b or "").split(" ") if "=" in x) if b else {}
        small = "small_min=1" in (b or "")
        init = st[0][1] if st else a
        if init != "ok":
            bump("smoke_init_refused")
            if not init.startswith("err:"):
                viol.append(("initialisation %s" % init, "smoke", ln, a, b, None))
            if b and pred.get("init") != init: mism.append(("smoke", ln, a, b))
            continue
        bump("smoke_accepted")
        if b and pred.get("init") != "ok": mism.append(("smoke", ln, a, b))
        bad = [(k, v) for k, v in st if not (v == "ok" or (k == "config" and v in ("changed", "same", "refused:untouched")))]
        if a in ("hang", "harness-panic"): bad = [("run", a)]
        if not bad:
            nontriv.add(ln); bump("smoke_all_ok")
            if len(samples) < 6: samples.append({"mode": "smoke", "case": ln, "impl": a, "model": b})
            continue
        sig = None
        if small and all(k in ("backup", "backup2", "restore", "restore2", "forget") for k, v in bad) and any(v == "panic" for k, v in bad):
            sig = "rabin-min-size-below-read-buffer"
        bump("smoke_failed" + ("_known" if sig else ""))
        viol.append(("an accepted configuration / option value makes %s fail: %s" % (bad[0][0], bad[0][1]), "smoke", ln, a, b, sig))

    cov.update({"evaluations": sum(v for k, v in hist.items() if k.split("_")[0] in ("apply", "init", "sizer", "rabin", "smoke")),
                "distinct_nontrivial": len(nontriv),
                "rule": "apply: stored config (valid, legacy, out-of-range) x 1-4 option records, each field unset/boundary/interior/huge, coherent and incoherent Rabin triples; repo: init + 1-5 changes with the config re-read from the backend after each; sizer: stored configs x blob type x repository size x pack size; smoke: accepted-leaning configs x prune limits (0/5/50/99/100/101/150%%, huge, sizes 0..2^64-1, unlimited) x file sizes.  non-trivial = an accepted change that names at least one setting / an effective change on a repository / a sizer evaluation without panic / a smoke run passing all stages; distinct by full case text",
                "samples": samples, "distribution": hist,
                "apply_statement_shapes": meta["shapes"] if meta else None,
                "traces_validated_against_impl": sum(hist.get(k, 0) for k in ("apply_ok", "apply_refused", "sizer")) + sum(v for k, v in hist.items() if k.startswith("init_")) + sum(v for k, v in hist.items() if k.startswith("rabin_") or k.startswith("smoke_init") or k == "smoke_accepted"),
                "disagreements_checked": len(mism) + len(viol), "model_impl_mismatches": len(mism), "oracle_violations": len(viol)})
    for what, mode, case, out, extra, sig in viol[:60]:
        ctx.violation(what, {"mode": mode, "case": case, "impl": out, "detail": extra,
                             "how_to_replay": "echo '<case>' | .cache/target*/debug/c18 - <mode>   (format: harness/src/bin/c18.rs)"}, signature=sig)
    if mism and not [v for v in viol if v[5] is None]:
        m = mism[0]
        ctx.violation("correspondence broken: extracted model disagrees with the implementation in mode %s (%d cases) although the property's oracle holds on every case" % (m[0], len(mism)),
                      {"correspondence": "props/C18 Model vs ConfigOptions::apply / apply_config / PackSizer / check_rabin_params",
                       "first": {"mode": m[0], "case": m[1], "impl": m[2], "model": m[3]}}, no_input=True)
    vlib.finish_broken_obligations(ctx)
