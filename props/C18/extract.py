"""C18 fact extractor: regenerates props/C18/coq/Extracted.v from the current source.

  * commands/config.rs   ConfigOptions fields; the statements of `ConfigOptions::apply` in
                         source order with their shape (conditional / converting / guarded /
                         unconditional assignment, validations and their order, error sites);
                         the append-only guard of `apply_config`
  * repofile/configfile.rs  ConfigFile fields and types, DEFAULT_* constants, accessor shapes,
                         Chunker variants
  * chunker/rabin.rs     the checks of `check_rabin_params` (conditions translated), BUF_SIZE
  * blob/packer.rs       MAX_SIZE, the arithmetic of PackSizer::pack_size / is_too_small / is_too_large
  * commands/prune.rs    the match arms computing max_unused / max_repack in `decide_repack`
  * commands/init.rs     the version a new repository starts with

Rust expressions are translated by a small Pratt parser into the expr/cond language of
ModelBase.v; anything outside the recognised subset raises ExtractError (fails loudly)."""
import re, sys, os
sys.path.insert(0, os.path.join(os.path.dirname(__file__), "..", "..", "lib"))
from rustscan import *

# ------------------------------------------------------------------ expression parser

TOK = re.compile(r"\s*(?:(\d[\d_]*(?:u8|u16|u32|u64|usize|i32|i64)?)|([A-Za-z_][A-Za-z_0-9]*(?:::[A-Za-z_][A-Za-z_0-9]*)*!?)|(\|\||&&|==|!=|<=|>=|\.\.=|=>|[-+*/&!<>().,=]))")

def tokenize(s):
    out, i = [], 0
    s = s.strip()
    while i < len(s):
        m = TOK.match(s, i)
        if not m or m.end() == i:
            raise ExtractError("cannot tokenise expression at %r" % s[i:i + 30])
        if m.group(1): out.append(("num", m.group(1)))
        elif m.group(2): out.append(("id", m.group(2)))
        else: out.append(("op", m.group(3)))
        i = m.end()
        while i < len(s) and s[i].isspace(): i += 1
    return out

BINPREC = {"||": 1, "&&": 2, "==": 3, "!=": 3, "<": 3, ">": 3, "<=": 3, ">=": 3, "&": 5, "+": 6, "-": 6, "*": 7, "/": 7}

class P:
    def __init__(self, toks): self.t, self.i = toks, 0
    def peek(self): return self.t[self.i] if self.i < len(self.t) else ("eof", "")
    def next(self):
        x = self.peek(); self.i += 1; return x
    def expect(self, v):
        x = self.next()
        if x[1] != v: raise ExtractError("expected %r, found %r" % (v, x[1]))
    def expr(self, minp=0):
        l = self.unary()
        while True:
            k, v = self.peek()
            if k == "id" and v == "as":
                self.next(); tname = self.next()[1]; l = ("cast", l, tname); continue
            if k == "op" and v in BINPREC and BINPREC[v] >= minp and BINPREC[v] > 0:
                p = BINPREC[v]
                if p < minp: break
                self.next()
                r = self.expr(p + 1)
                l = ("bin", v, l, r); continue
            break
        return l
    def unary(self):
        k, v = self.peek()
        if k == "op" and v in ("!", "*", "&", "-"):
            self.next(); x = self.unary()
            # `as` binds tighter than unary operators only for `-`; handled by postfix below
            return ("un", v, x)
        return self.postfix(self.atom())
    def atom(self):
        k, v = self.next()
        if k == "num": return ("num", v)
        if k == "op" and v == "(":
            e = self.expr(); self.expect(")"); return ("paren", e)
        if k == "id":
            if self.peek() == ("op", "(") and not v.endswith("!"):
                return ("call", v, self.args())
            if v.endswith("!"):
                return ("macro", v[:-1], self.args())
            return ("path", v)
        raise ExtractError("unexpected token %r" % v)
    def args(self):
        self.expect("("); a = []
        while self.peek() != ("op", ")"):
            a.append(self.expr())
            if self.peek() == ("op", ","): self.next()
        self.expect(")"); return a
    def postfix(self, x):
        while True:
            k, v = self.peek()
            if k == "op" and v == ".":
                self.next(); name = self.next()[1]
                if self.peek() == ("op", "("): x = ("method", x, name, self.args())
                else: x = ("field", x, name)
                continue
            if k == "id" and v == "as":
                self.next(); x = ("cast", x, self.next()[1]); continue
            break
        return x

def parse_expr(s):
    p = P(tokenize(s)); e = p.expr()
    if p.peek()[0] != "eof": raise ExtractError("trailing tokens in expression %r" % s)
    return e

def src_of(n):
    k = n[0]
    if k == "num": return n[1]
    if k == "path": return n[1]
    if k == "paren": return "(" + src_of(n[1]) + ")"
    if k == "field": return src_of(n[1]) + "." + n[2]
    if k == "method": return src_of(n[1]) + "." + n[2] + "(" + ",".join(src_of(a) for a in n[3]) + ")"
    if k == "call": return n[1] + "(" + ",".join(src_of(a) for a in n[2]) + ")"
    if k == "macro": return n[1] + "!(" + ",".join(src_of(a) for a in n[2]) + ")"
    if k == "un": return n[1] + src_of(n[2])
    if k == "cast": return src_of(n[1]) + " as " + n[2]
    if k == "bin": return src_of(n[2]) + n[1] + src_of(n[3])
    return "?"

RTY = {"u32": "U32", "u64": "U64", "usize": "U64", "i32": "I32"}
TYMAX = {"U32": 2 ** 32 - 1, "U64": 2 ** 64 - 1, "I32": 2 ** 31 - 1}
TYMIN = {"U32": 0, "U64": 0, "I32": -2 ** 31}
BINOP = {"+": "OAdd", "-": "OSub", "*": "OMul", "/": "ODiv", "&": "OBitAnd"}
CMPOP = {"==": "KEq", "!=": "KNe", "<": "KLt", "<=": "KLe", ">": "KGt", ">=": "KGe"}
METHOP = {"min": "OMin", "saturating_add": "OSatAdd", "saturating_sub": "OSatSub", "saturating_mul": "OSatMul"}

def zlit(v):
    return "(%d)" % v

class Tr:
    """ctx: canonical source text -> ('e', coq, type) | ('c', coq); ranges: name -> (lo, hi) coq exprs"""
    def __init__(self, ctx, ranges=None, enums=None):
        self.ctx, self.ranges, self.enums = ctx, ranges or {}, enums or {}
    def e(self, n, want=None):
        """expression -> (coq, type or None for an untyped literal)"""
        s = src_of(n)
        if s in self.ctx:
            c = self.ctx[s]
            if c[0] != "e": raise ExtractError("condition used as a value: " + s)
            return c[1], c[2]
        k = n[0]
        if k == "num":
            m = re.fullmatch(r"([\d_]+)(u8|u16|u32|u64|usize|i32|i64)?", n[1])
            v = int(m.group(1).replace("_", ""))
            return "(EConst %s)" % zlit(v), (RTY.get(m.group(2)) if m.group(2) else None)
        if k == "paren": return self.e(n[1], want)
        if k == "un" and n[1] in ("*", "&"): return self.e(n[2], want)
        if k == "un" and n[1] == "-" and n[2][0] == "num":
            c, t = self.e(n[2]); v = int(re.sub(r"\D.*$", "", n[2][1].replace("_", "")))
            return "(EConst %s)" % zlit(-v), t
        if k == "path":
            m = re.fullmatch(r"(u32|u64|usize|i32)::(MAX|MIN)", n[1])
            if m:
                t = RTY[m.group(1)]
                return "(EConst %s)" % zlit(TYMAX[t] if m.group(2) == "MAX" else TYMIN[t]), t
            raise ExtractError("unknown name in expression: " + n[1])
        if k == "call":
            m = re.fullmatch(r"(u32|u64|usize)::from", n[1])
            if m and len(n[2]) == 1:
                c, t = self.e(n[2][0]); return c, RTY[m.group(1)]
            raise ExtractError("unknown call in expression: " + s)
        if k == "cast":
            if n[2] not in RTY: raise ExtractError("unknown cast target " + n[2])
            c, t = self.e(n[1]); return "(ECast %s %s)" % (RTY[n[2]], c), RTY[n[2]]
        if k == "method":
            if n[2] == "integer_sqrt" and not n[3]:
                c, t = self.e(n[1]); return "(EIsqrt %s)" % c, t
            if n[2] in METHOP and len(n[3]) == 1:
                a, ta = self.e(n[1]); b, tb = self.e(n[3][0], ta)
                t = ta or tb or want
                if t is None or (ta and tb and ta != tb): raise ExtractError("cannot type " + s)
                return "(EBin %s %s %s %s)" % (METHOP[n[2]], t, a, b), t
            raise ExtractError("unknown method in expression: " + s)
        if k == "bin" and n[1] in BINOP:
            a, ta = self.e(n[2]); b, tb = self.e(n[3])
            t = ta or tb or want
            if t is None or (ta and tb and ta != tb): raise ExtractError("cannot type " + s)
            if n[1] == "/" and t == "I32": raise ExtractError("signed division not modelled: " + s)
            return "(EBin %s %s %s %s)" % (BINOP[n[1]], t, a, b), t
        raise ExtractError("expression outside the modelled subset: " + s)
    def c(self, n):
        s = src_of(n)
        if s in self.ctx and self.ctx[s][0] == "c": return self.ctx[s][1]
        k = n[0]
        if k == "paren": return self.c(n[1])
        if k == "un" and n[1] == "!": return "(CNot %s)" % self.c(n[2])
        if k == "path" and n[1] in ("true", "false"): return "(CConst %s)" % n[1]
        if k == "bin" and n[1] in ("&&", "||"):
            return "(%s %s %s)" % ("CAnd" if n[1] == "&&" else "COr", self.c(n[2]), self.c(n[3]))
        if k == "bin" and n[1] in CMPOP:
            a, ta = self.e(n[2]); b, tb = self.e(n[3])
            if ta and tb and ta != tb: raise ExtractError("comparison of different types: " + s)
            return "(CCmp %s %s %s)" % (CMPOP[n[1]], a, b)
        if k == "method" and n[2] == "is_power_of_two" and not n[3]:
            return "(CPow2 %s)" % self.e(n[1])[0]
        if k == "method" and n[2] == "contains" and len(n[3]) == 1 and n[1][0] == "path" and n[1][1] in self.ranges:
            lo, hi = self.ranges[n[1][1]]; x = self.e(n[3][0])[0]
            return "(CAnd (CCmp KLe %s %s) (CCmp KLe %s %s))" % (lo, x, x, hi)
        if k == "macro" and n[1] == "matches" and len(n[2]) == 2 and n[2][1][0] == "path":
            x = self.e(n[2][0])[0]; var = n[2][1][1]
            if var not in self.enums: raise ExtractError("unknown enum variant " + var)
            return "(CCmp KEq %s (EConst %s))" % (x, zlit(self.enums[var]))
        raise ExtractError("condition outside the modelled subset: " + s)

# ------------------------------------------------------------------ statements

def split_stmts(body):
    """top-level statements of a block: ('if', [(cond_text|None, block_text), ...]) | ('stmt', text)"""
    out, i, n = [], 0, len(body)
    while True:
        while i < n and body[i].isspace(): i += 1
        if i >= n: break
        if re.match(r"match\b", body[i:]):
            j = body.find("{", i)
            e = match_brace(body, j)
            out.append(("match", (" ".join(body[i + 5:j].split()), body[j + 1:e])))
            i = e + 1
            if i < n and body[i] == ";": i += 1
            continue
        if re.match(r"if\b", body[i:]):
            chain = []
            while True:
                j = i + 2; depth = 0
                while j < n and not (body[j] == "{" and depth == 0):
                    if body[j] in "([": depth += 1
                    elif body[j] in ")]": depth -= 1
                    elif body[j] == '"':
                        j += 1
                        while body[j] != '"': j += 2 if body[j] == "\\" else 1
                    j += 1
                e = match_brace(body, j)
                chain.append((body[i + 2:j].strip(), body[j + 1:e]))
                i = e + 1
                m = re.match(r"\s*else\s+if\b", body[i:])
                if m:
                    i += m.end() - 2; continue
                m = re.match(r"\s*else\s*\{", body[i:])
                if m:
                    j = i + m.end() - 1; e = match_brace(body, j)
                    chain.append((None, body[j + 1:e])); i = e + 1
                break
            out.append(("if", chain))
        else:
            j, depth = i, 0
            while j < n:
                ch = body[j]
                if ch == '"':
                    j += 1
                    while body[j] != '"': j += 2 if body[j] == "\\" else 1
                elif ch in "([{": depth += 1
                elif ch in ")]}": depth -= 1
                elif ch == ";" and depth == 0: break
                j += 1
            out.append(("stmt", " ".join(body[i:j].split())))
            i = j + 1
    return out

ERR_RE = re.compile(r"^return\s+Err\s*\(\s*RusticError::(?:new|with_source)\s*\(\s*ErrorKind::(\w+)\s*,\s*\"((?:[^\"\\]|\\.)*)\"", re.S)

class Errors:
    def __init__(self): self.l = []
    def site(self, kind, msg):
        key = (kind, re.sub(r"[^A-Za-z0-9]", "_", msg))
        if key not in self.l: self.l.append(key)
        return self.l.index(key)

def err_of_block(block, errs):
    st = split_stmts(block)
    if len(st) != 1 or st[0][0] != "stmt": raise ExtractError("error block has an unexpected shape: %r" % block.strip()[:80])
    m = ERR_RE.match(st[0][1])
    if not m: raise ExtractError("not a `return Err(RusticError::new(kind, \"..\"))`: %r" % st[0][1][:80])
    return errs.site(m.group(1), m.group(2))

def struct_fields(src, name):
    m = re.search(r"\bpub\s+struct\s+%s\s*\{" % name, src)
    if not m: raise ExtractError("struct %s not found" % name)
    e = match_brace(src, m.end() - 1)
    body = re.sub(r"#\[[^\]]*\]", "", src[m.end():e])
    fs = re.findall(r"\bpub\s+(\w+)\s*:\s*([^,]+?)\s*,", body + ",")
    if not fs: raise ExtractError("no fields in struct " + name)
    return fs

def vty_of(rt, enums_n):
    opt = re.fullmatch(r"Option<(.+)>", rt)
    base = opt.group(1) if opt else rt
    if base in RTY: return "TInt " + RTY[base], bool(opt)
    if base == "ByteSize": return "TInt U64", bool(opt)
    if base == "bool": return "TBool", bool(opt)
    if base == "Chunker": return "TEnum %d" % enums_n, bool(opt)
    if base in ("String", "RepositoryId"): return "TOpaque", bool(opt)
    raise ExtractError("field type not modelled: " + rt)

def checks_coq(l):
    return "[" + "; ".join("(%s, %d%%N)" % (c, e) for c, e in l) + "]"

def gen(repo):
    cfg = read(repo, "crates/core/src/commands/config.rs")
    cf = read(repo, "crates/core/src/repofile/configfile.rs")
    rab = read(repo, "crates/core/src/chunker/rabin.rs")
    pk = read(repo, "crates/core/src/blob/packer.rs")
    pr = read(repo, "crates/core/src/commands/prune.rs")
    ini = read(repo, "crates/core/src/commands/init.rs")
    errs = Errors()
    out = ["(* GENERATED by props/C18/extract.py from the rustic_core source - do not edit *)",
           "From Verif.Base Require Import Tactics.", "From Verif.C18 Require Import ModelBase.",
           "Local Open Scope Z_scope.", ""]
    # ---- Chunker enum
    m = re.search(r"\bpub\s+enum\s+Chunker\s*\{", cf)
    if not m: raise ExtractError("enum Chunker not found")
    eb = cf[m.end():match_brace(cf, m.end() - 1)]
    default_variant = None
    variants = []
    for part in eb.split(","):
        mm = re.search(r"(\w+)\s*$", part.strip())
        if not mm: continue
        variants.append(mm.group(1))
        if "#[default]" in part: default_variant = mm.group(1)
    if variants != ["Rabin", "FixedSize"] or default_variant is None:
        raise ExtractError("enum Chunker changed: %r default %r" % (variants, default_variant))
    enums = {"Chunker::" + v: i for i, v in enumerate(variants)}
    out.append("Definition CHUNKER_RABIN : Z := %d.  Definition CHUNKER_FIXED : Z := %d." % (enums["Chunker::Rabin"], enums["Chunker::FixedSize"]))
    out.append("Definition CHUNKER_DEFAULT : Z := %d." % enums["Chunker::" + default_variant])
    # ---- fields
    cfields = struct_fields(cf, "ConfigFile")
    ofields = struct_fields(cfg, "ConfigOptions")
    cidx = {n: i for i, (n, t) in enumerate(cfields)}
    oidx = {n: i for i, (n, t) in enumerate(ofields)}
    ctys, otys = {}, {}
    for n, t in cfields:
        out.append("Definition C_%s : N := %d." % (n, cidx[n]))
        ctys[n] = vty_of(t, len(variants))
    for n, t in ofields:
        out.append("Definition O_%s : N := %d." % (n, oidx[n]))
        otys[n] = vty_of(t, len(variants))
        if not otys[n][1]: raise ExtractError("option field %s is not an Option" % n)
    out.append("Definition cfields : list N := [%s]." % "; ".join("C_" + n for n, _ in cfields))
    out.append("Definition ofields : list N := [%s]." % "; ".join("O_" + n for n, _ in ofields))
    out.append("Definition cfield_ty (g : N) : vty :=\n  " + " else\n  ".join(
        "if N.eqb g C_%s then %s" % (n, ctys[n][0]) for n, _ in cfields) + " else TOpaque.")
    out.append("Definition ofield_ty (f : N) : vty :=\n  " + " else\n  ".join(
        "if N.eqb f O_%s then %s" % (n, otys[n][0]) for n, _ in ofields) + " else TOpaque.")
    out.append("(* fields of ConfigFile that are not wrapped in Option (always present) *)")
    out.append("Definition cfields_required : list N := [%s]." % "; ".join("C_" + n for n, _ in cfields if not ctys[n][1]))
    # ---- constants and accessors of configfile.rs
    consts = {}
    for c in ["KB", "MB", "DEFAULT_TREE_SIZE", "DEFAULT_DATA_SIZE", "DEFAULT_GROW_FACTOR", "DEFAULT_SIZE_LIMIT",
              "DEFAULT_MIN_PERCENTAGE", "DEFAULT_CHUNK_SIZE", "DEFAULT_CHUNK_MIN_SIZE", "DEFAULT_CHUNK_MAX_SIZE"]:
        v = const_value(cf, c)
        v = re.sub(r"\bu32::MAX\b", str(2 ** 32 - 1), v)
        for k2, v2 in consts.items(): v = re.sub(r"\b%s\b" % k2, str(v2), v)
        consts[c] = int_expr(v)
        if c not in ("KB", "MB"): out.append("Definition %s : Z := %d." % (c, consts[c]))
    def expect_body(src, fn, pat, what):
        b = " ".join(fn_body(src, fn).split())
        if not re.fullmatch(pat, b): raise ExtractError("%s: fn %s no longer has the expected shape: %r" % (what, fn, b[:160]))
    expect_body(cf, "chunker", r"self\.chunker\.unwrap_or_default\(\)", "configfile.rs")
    expect_body(cf, "chunk_size", r"self\.chunk_size\.unwrap_or\(constants::DEFAULT_CHUNK_SIZE\)", "configfile.rs")
    expect_body(cf, "chunk_min_size", r"self\.chunk_min_size \.unwrap_or\(constants::DEFAULT_CHUNK_MIN_SIZE\)", "configfile.rs")
    expect_body(cf, "chunk_max_size", r"self\.chunk_max_size \.unwrap_or\(constants::DEFAULT_CHUNK_MAX_SIZE\)", "configfile.rs")
    expect_body(cf, "packsize",
                r"match blob \{ BlobType::Tree => \( self\.treepack_size\.unwrap_or\(constants::DEFAULT_TREE_SIZE\), self\.treepack_growfactor \.unwrap_or\(constants::DEFAULT_GROW_FACTOR\), self\.treepack_size_limit \.unwrap_or\(constants::DEFAULT_SIZE_LIMIT\), \), "
                r"BlobType::Data => \( self\.datapack_size\.unwrap_or\(constants::DEFAULT_DATA_SIZE\), self\.datapack_growfactor \.unwrap_or\(constants::DEFAULT_GROW_FACTOR\), self\.datapack_size_limit \.unwrap_or\(constants::DEFAULT_SIZE_LIMIT\), \), \}", "configfile.rs")
    expect_body(cf, "packsize_ok_percents",
                r"\( self\.min_packsize_tolerate_percent \.unwrap_or\(constants::DEFAULT_MIN_PERCENTAGE\), match self\.max_packsize_tolerate_percent \{ None \| Some\(0\) => u32::MAX, Some\(percent\) => percent, \}, \)", "configfile.rs")
    expect_body(cf, "extra_verify", r"self\.extra_verify\.unwrap_or\(true\)", "configfile.rs")
    expect_body(pk, "from_config",
                r"let \(default_size, grow_factor, size_limit\) = config\.packsize\(blob_type\); let \(min_packsize_tolerate_percent, max_packsize_tolerate_percent\) = config\.packsize_ok_percents\(\); "
                r"Self \{ default_size, grow_factor, size_limit, current_size, min_packsize_tolerate_percent, max_packsize_tolerate_percent, \}", "packer.rs")
    # ---- zstd level range (a fact about the zstd library, validated against the harness at run time)
    out.append("Definition ZSTD_MIN : Z := -131072.  Definition ZSTD_MAX : Z := 22.")
    # ---- check_rabin_params
    rb = fn_body(rab, "check_rabin_params")
    sig = " ".join(fn_sig(rab, "check_rabin_params").split())
    if not re.search(r"chunk_size: usize, chunk_min_size: usize, chunk_max_size: usize", sig):
        raise ExtractError("check_rabin_params signature changed: " + sig)
    rctx = {"chunk_size": ("e", "(EVar V_cs)", "U64"), "chunk_min_size": ("e", "(EVar V_min)", "U64"),
            "chunk_max_size": ("e", "(EVar V_max)", "U64")}
    # named constants of the `constants` module used in the checks (e.g. MIN_CHUNK_MIN_SIZE)
    rkb0 = int_expr(const_value(rab, "KB"))
    def rconst(name, depth=0):
        v = const_value(rab, name)
        for dep in set(re.findall(r"\b[A-Z][A-Z0-9_]+\b", v)):
            if depth > 4: raise ExtractError("constant chain too deep: " + name)
            v = re.sub(r"\b%s\b" % dep, str(rkb0 if dep == "KB" else rconst(dep, depth + 1)), v)
        return int_expr(v)
    for cname in set(re.findall(r"\bconstants::([A-Z][A-Z0-9_]*)\b", rb)):
        rctx["constants::" + cname] = ("e", "(EConst %s)" % zlit(rconst(cname)), "U64")
    tr = Tr(rctx)
    rchecks = []
    sts = split_stmts(rb)
    for k, v in sts[:-1]:
        if k != "if" or len(v) != 1: raise ExtractError("check_rabin_params: unexpected statement")
        rchecks.append((tr.c(parse_expr(v[0][0])), err_of_block(v[0][1], errs)))
    if sts[-1] != ("stmt", "Ok(())"): raise ExtractError("check_rabin_params does not end with Ok(())")
    out.append("Definition rabin_checks : list (cond * N) :=\n  %s." % checks_coq(rchecks))
    rkb = int_expr(const_value(rab, "KB"))
    out.append("Definition BUF_SIZE : Z := %d." % int_expr(re.sub(r"\bKB\b", str(rkb), const_value(rab, "BUF_SIZE"))))
    # ---- ConfigOptions::apply
    ab = fn_body(cfg, "apply", nth=0)
    if "config: &mut ConfigFile" not in fn_sig(cfg, "apply", nth=0): raise ExtractError("ConfigOptions::apply signature changed")
    conv_err = None
    mce = ERR_RE.match("return Err(" + " ".join(fn_body(cfg, "construct_size_too_large_error").split()))
    if not mce: raise ExtractError("construct_size_too_large_error has an unexpected shape")
    conv_err = errs.site(mce.group(1), mce.group(2))
    cfg_ctx = {"config.version": ("e", "(EVar V_version)", "U32"),
               "config.chunker()": ("e", "(EVar V_chunker)", None),
               "config.chunk_size()": ("e", "(EVar V_cs)", "U64"),
               "config.chunk_min_size()": ("e", "(EVar V_min)", "U64"),
               "config.chunk_max_size()": ("e", "(EVar V_max)", "U64")}
    steps, shapes = [], []
    sts = split_stmts(ab)
    if sts[-1] != ("stmt", "Ok(())"): raise ExtractError("ConfigOptions::apply does not end with Ok(())")
    for k, v in sts[:-1]:
        if k == "match":
            scrut, arms = v
            arms = " ".join(arms.split())
            ma = re.fullmatch(r"Chunker::Rabin => check_rabin_params\( config\.chunk_size\(\), config\.chunk_min_size\(\), config\.chunk_max_size\(\), \)\?, "
                              r"Chunker::FixedSize => check_fixed_size_params\(config\.chunk_size\(\)\)\?,?", arms)
            if scrut != "config.chunker()" or not ma:
                raise ExtractError("apply: match statement not recognised: match %s { %s }" % (scrut, arms[:120]))
            fx = read(repo, "crates/core/src/chunker/fixed_size.rs")
            fsts = split_stmts(fn_body(fx, "check_fixed_size_params"))
            if "chunk_size: usize" not in fn_sig(fx, "check_fixed_size_params") or len(fsts) != 2 or fsts[0][0] != "if" \
               or len(fsts[0][1]) != 1 or " ".join(fsts[0][1][0][0].split()) != "chunk_size == 0" or fsts[1] != ("stmt", "Ok(())"):
                raise ExtractError("check_fixed_size_params has an unexpected shape")
            pre_r = Tr(cfg_ctx, enums=enums).c(parse_expr("matches!(config.chunker(), Chunker::Rabin)"))
            steps.append("SCheck %s rabin_checks" % pre_r)
            shapes.append((None, None, "check_rabin_params"))
            pre_f = Tr(cfg_ctx, enums=enums).c(parse_expr("matches!(config.chunker(), Chunker::FixedSize) && config.chunk_size() == 0"))
            steps.append("SCheck (CConst true) %s" % checks_coq([(pre_f, err_of_block(fsts[0][1][0][1], errs))]))
            shapes.append((None, None, "check"))
            continue
        if k == "stmt":
            m = re.fullmatch(r"config\.(\w+) = self\.(\w+)", v)
            if not m or m.group(1) not in cidx or m.group(2) not in oidx:
                raise ExtractError("apply: statement not recognised: " + v)
            steps.append("SAssign O_%s C_%s" % (m.group(2), m.group(1)))
            shapes.append((m.group(2), m.group(1), "unconditional"))
            continue
        hdr = v[0][0]
        m = re.fullmatch(r"let Some\((\w+)\) = self\.(\w+)", hdr)
        if not m:
            # a validation block without assignment
            if len(v) != 1: raise ExtractError("apply: else-branch on a validation block not modelled")
            pre = Tr(cfg_ctx, enums=enums).c(parse_expr(hdr))
            inner = split_stmts(v[0][1])
            if len(inner) == 1 and inner[0][0] == "stmt" and inner[0][1].startswith("return Err"):
                steps.append("SCheck (CConst true) %s" % checks_coq([(pre, err_of_block(v[0][1], errs))]))
                shapes.append((None, None, "check"))
            elif len(inner) == 1 and inner[0][0] == "stmt" and re.fullmatch(
                    r"check_rabin_params\( config\.chunk_size\(\), config\.chunk_min_size\(\), config\.chunk_max_size\(\), \)\?", inner[0][1]):
                steps.append("SCheck %s rabin_checks" % pre)
                shapes.append((None, None, "check_rabin_params"))
            else:
                raise ExtractError("apply: validation block not recognised: " + hdr)
            continue
        x, f = m.group(1), m.group(2)
        if f not in oidx: raise ExtractError("apply reads unknown option " + f)
        if len(v) != 1: raise ExtractError("apply: else on `if let Some` not modelled (%s)" % f)
        inner = split_stmts(v[0][1])
        fty = otys[f][0]
        xt = fty[5:] if fty.startswith("TInt ") else None
        ctx = dict(cfg_ctx); ctx[x] = ("e", "(EVar V_x)", xt)
        ranges = {}
        checks = []
        conv_var = None
        target = None
        special_version = False
        for kk, vv in inner:
            if kk == "stmt":
                mm = re.fullmatch(r"let (\w+) = (-?\d+)\.\.=(-?\d+)", vv)
                if mm:
                    ranges[mm.group(1)] = ("(EConst %s)" % zlit(int(mm.group(2))), "(EConst %s)" % zlit(int(mm.group(3)))); continue
                mm = re.fullmatch(r"let (\w+) = zstd::compression_level_range\(\)", vv)
                if mm:
                    ranges[mm.group(1)] = ("(EConst ZSTD_MIN)", "(EConst ZSTD_MAX)"); continue
                mm = re.fullmatch(r"let (\w+)(?:: (\w+))? = %s \.as_u64\(\) \.try_into\(\) \.map_err\(\|err\| construct_size_too_large_error\(err, %s\)\)\?" % (x, x), vv)
                if mm:
                    conv_var = mm.group(1); continue
                mm = re.fullmatch(r"config\.(\w+) = (.+)", vv)
                if mm and mm.group(1) in cidx and target is None:
                    g, rhs = mm.group(1), mm.group(2)
                    rhs = re.sub(r"\s+", " ", rhs)
                    if rhs == "Some(%s)" % x or (g == "version" and rhs == x): target = (g, "plain")
                    elif conv_var and rhs == "Some(%s)" % conv_var: target = (g, "conv")
                    elif re.fullmatch(r"Some\( %s\.as_u64\(\) \.try_into\(\) \.map_err\(\|err\| construct_size_too_large_error\(err, %s\)\)\?, \)" % (x, x), rhs): target = (g, "conv")
                    else: raise ExtractError("apply: assignment not recognised: " + vv)
                    continue
                raise ExtractError("apply: statement not recognised in `%s` block: %s" % (f, vv))
            # nested if: validation(s)
            if len(vv) == 2 and vv[1][0] is not None and f == "set_version":
                # if !range.contains(&version) { Err } else if version < config.version { Err }
                c1 = " ".join(vv[0][0].split()); c2 = " ".join(vv[1][0].split())
                rng = [r for r in ranges if c1 == "!%s.contains(&%s)" % (r, x)]
                if not rng or c2 != "%s < config.version" % x: raise ExtractError("apply: version checks not recognised")
                lo, hi = ranges[rng[0]]
                special_version = (lo, hi, err_of_block(vv[0][1], errs), err_of_block(vv[1][1], errs))
                continue
            if len(vv) != 1: raise ExtractError("apply: else-branch in `%s` block not modelled" % f)
            checks.append((Tr(ctx, ranges, enums).c(parse_expr(vv[0][0])), err_of_block(vv[0][1], errs)))
        if target is None: raise ExtractError("apply: `%s` block assigns nothing" % f)
        g, how = target
        if special_version:
            if g != "version" or checks: raise ExtractError("apply: version block changed")
            lo, hi, e1, e2 = special_version
            lo = re.sub(r"[^\d-]", "", lo); hi = re.sub(r"[^\d-]", "", hi)
            steps.append("SVersion O_%s C_%s (%s) (%s) %d%%N %d%%N" % (f, g, lo, hi, e1, e2))
            shapes.append((f, g, "version"))
        elif how == "conv":
            if checks: raise ExtractError("apply: converting block with checks not modelled (%s)" % f)
            t = ctys[g][0]
            if not t.startswith("TInt "): raise ExtractError("apply: conversion into non-integer field " + g)
            steps.append("SSetConv O_%s C_%s %s %d%%N" % (f, g, t[5:], conv_err))
            shapes.append((f, g, "conditional+conversion"))
        elif checks:
            steps.append("SGuardSet O_%s C_%s %s" % (f, g, checks_coq(checks)))
            shapes.append((f, g, "conditional+validation"))
        else:
            if g == "version": raise ExtractError("apply: version assigned without checks")
            steps.append("SSet O_%s C_%s" % (f, g))
            shapes.append((f, g, "conditional"))
    out.append("Definition apply_steps : list step :=\n  [ " + ";\n    ".join(steps) + " ].")
    # ---- apply_config guard, init
    acb = " ".join(fn_body(cfg, "apply_config").split())
    m = re.search(r"if repo\.config\(\)\.append_only == Some\(true\) && opts\.set_append_only != Some\(false\) \{ return Err\(RusticError::new\( ErrorKind::(\w+), \"((?:[^\"\\]|\\.)*)\"", acb)
    if not m: raise ExtractError("apply_config: append-only guard not found in the expected shape")
    e_ao = errs.site(m.group(1), m.group(2))
    if not re.search(r"let mut new_config = repo\.config\(\)\.clone\(\); opts\.apply\(&mut new_config\)\?; if &new_config == repo\.config\(\) \{ Ok\(false\) \} else \{ (?:let old_append_only = repo\.config\(\)\.append_only; )?repo\.set_config\(new_config\.clone\(\)\); (?:save_config\(repo, new_config, \*repo\.dbe\(\)\.key\(\)\)\?;|if let Err\(err\) = save_config\(repo, new_config, \*repo\.dbe\(\)\.key\(\)\) \{ (?://[^\n]*)?.*?return Err\(err\); \}) Ok\(true\) \}", acb):
        raise ExtractError("apply_config: clone / apply / compare / save discipline not found in the expected shape")
    out.append("Definition E_APPEND_ONLY : N := %d." % e_ao)
    ib = " ".join(fn_body(ini, "init").split())
    m = re.search(r"let mut config = ConfigFile::new\((\d+), repo_id, chunker_poly\);", ib)
    if not m or "config_opts.apply(&mut config)?;" not in ib or ib.index("config_opts.apply(&mut config)?;") > ib.index("init_with_config("):
        raise ExtractError("init: ConfigFile::new(version, ..) followed by config_opts.apply before init_with_config not found")
    out.append("Definition INIT_VERSION : Z := %s." % m.group(1))
    # ---- what is stored: save_config / save_config_hot / init / init_with_config / open
    MARK = {"None": "None", "Some(true)": "(Some 1)", "Some(false)": "(Some 0)"}
    def save_stmts(body, fn, allow_call):
        res, target = [], None
        for k, v in split_stmts(body):
            if k != "stmt": raise ExtractError("%s: unexpected control flow: %r" % (fn, v))
            mm = re.fullmatch(r"new_config\.is_hot = (None|Some\(true\)|Some\(false\))", v)
            if mm: res.append("SMarkHot %s" % MARK[mm.group(1)]); continue
            mm = re.fullmatch(r"let dbe = DecryptBackend::new\((repo\.be|hot_be)\.clone\(\), key\)", v)
            if mm: target = "SWriteCold" if mm.group(1) == "repo.be" else "SWriteHot"; continue
            if v == "_ = dbe.save_file_uncompressed(&new_config)?":
                if target is None: raise ExtractError("%s: save before a backend is chosen" % fn)
                res.append(target); continue
            if allow_call and v == "save_config_hot(repo, new_config, key)":
                res.append("SCallHot"); continue
            if v == "Ok(())": continue
            raise ExtractError("%s: statement not recognised: %s" % (fn, v))
        return res
    if not re.search(r"\(\s*repo: &Repository<S>,\s*(mut )?new_config: ConfigFile,\s*key: impl CryptoKey,?\s*\)", fn_sig(cfg, "save_config")) \
       or not re.search(r"\(\s*repo: &Repository<S>,\s*(mut )?new_config: ConfigFile,\s*key: impl CryptoKey,?\s*\)", fn_sig(cfg, "save_config_hot")):
        raise ExtractError("save_config / save_config_hot signature changed (new_config must be taken by value)")
    sc_stmts = save_stmts(fn_body(cfg, "save_config"), "save_config", True)
    if sc_stmts.count("SCallHot") != 1 or sc_stmts[-1] != "SCallHot": raise ExtractError("save_config does not end with save_config_hot(repo, new_config, key)")
    hb = split_stmts(fn_body(cfg, "save_config_hot"))
    if len(hb) != 2 or hb[0][0] != "if" or len(hb[0][1]) != 1 or " ".join(hb[0][1][0][0].split()) != "let Some(hot_be) = repo.be_hot.clone()" or hb[1] != ("stmt", "Ok(())"):
        raise ExtractError("save_config_hot is no longer `if let Some(hot_be) = repo.be_hot.clone() { .. } Ok(())`")
    sh_stmts = save_stmts(hb[0][1][0][1], "save_config_hot", False)
    out.append("Definition save_config_stmts : list sstmt := [%s]." % "; ".join(sc_stmts))
    out.append("Definition save_config_hot_stmts : list sstmt := [%s]." % "; ".join(sh_stmts))
    before = after = False; seen_apply = seen_write = False
    for k, v in split_stmts(fn_body(ini, "init")):
        if k == "if":
            if len(v) != 1 or " ".join(v[0][0].split()) != "repo.be_hot.is_some()" or " ".join(v[0][1].split()) != "config.is_hot = Some(true);":
                raise ExtractError("init: conditional not recognised: if %s" % v[0][0])
            if seen_write: after = True
            elif not seen_apply: before = True
            else: raise ExtractError("init: hot marker set between apply and the write")
            continue
        if k != "stmt": raise ExtractError("init: unexpected control flow")
        if v == "config_opts.apply(&mut config)?": seen_apply = True; continue
        if v == "let (key, key_id) = init_with_config(repo, credentials, key_opts, &config)?":
            if not seen_apply: raise ExtractError("init: config written before the options are applied")
            seen_write = True; continue
        if re.fullmatch(r"let repo_id = RepositoryId::from\(Id::random\(\)\)|let chunker_poly = random_poly\(\)\?|let mut config = ConfigFile::new\(\d+, repo_id, chunker_poly\)|info!\(.*\)|Ok\(\(key, key_id, config\)\)", v): continue
        raise ExtractError("init: statement not recognised: " + v)
    if not (seen_apply and seen_write): raise ExtractError("init: apply / init_with_config not found")
    out.append("Definition init_marks_hot_before_apply : bool := %s." % ("true" if before else "false"))
    out.append("Definition init_marks_hot_after_write : bool := %s." % ("true" if after else "false"))
    iwc = " ".join(fn_body(ini, "init_with_config").split())
    if not re.fullmatch(r"repo\.be\.create\(\)\?; let \(key, id\) = match credentials \{.*?\}; save_config\(repo, config\.clone\(\), key\)\?; Ok\(\(key, id\)\)", iwc):
        raise ExtractError("init_with_config: create / key / save_config(repo, config.clone(), key) shape not found")
    rp = read(repo, "crates/core/src/repository.rs")
    rib = " ".join(fn_body(rp, "init").split())
    if not rib.endswith("let (key, key_id, config) = commands::init::init(&self, credentials, key_opts, config_opts)?; self.open_raw(key, key_id, config)"):
        raise ExtractError("Repository::init no longer ends with commands::init::init(..)? ; self.open_raw(key, key_id, config)")
    omb = " ".join(fn_body(rp, "open_may_use_hot").split())
    m = re.search(r"let be = if use_hot \{ self\.be\.clone\(\) \} else \{ (?:// warm-up config file )?self\.warm_up_wait\(std::iter::once\(config_id\)\)\?; self\.be_cold\.clone\(\) \}; let dbe = DecryptBackend::new\(be, key\); let mut config: ConfigFile = dbe\.get_file\(&config_id\)\?; (if !use_hot && self\.be_hot\.is_some\(\) \{ config\.is_hot = Some\(true\); \} )?self\.open_raw\(key, key_id, config\)$", omb)
    if not m: raise ExtractError("open_may_use_hot: reading the config and the open_only_cold hot marker not found in the expected shape")
    out.append("Definition open_only_cold_marks_hot : bool := %s." % ("true" if m.group(1) else "false"))
    orb = " ".join(fn_body(rp, "open_raw").split())
    if not re.match(r"match \(config\.is_hot == Some\(true\), self\.be_hot\.is_some\(\)\) \{ \(true, false\) => \{ return Err\(.*?\); \} \(false, true\) => \{ return Err\(.*?\); \} _ => \{\} \}", orb):
        raise ExtractError("open_raw: the is_hot / be_hot consistency match not found in the expected shape")
    # ---- PackSizer
    pconsts = {}
    for c in ["KB", "MB", "MAX_SIZE"]:
        v = const_value(pk, c)
        for k2, v2 in pconsts.items(): v = re.sub(r"\b%s\b" % k2, str(v2), v)
        pconsts[c] = int_expr(v)
    out.append("Definition MAX_SIZE : Z := %d." % pconsts["MAX_SIZE"])
    sctx = {"self.default_size": ("e", "(EVar V_default)", "U32"), "self.grow_factor": ("e", "(EVar V_grow)", "U32"),
            "self.size_limit": ("e", "(EVar V_limit)", "U32"), "self.current_size": ("e", "(EVar V_current)", "U64"),
            "self.min_packsize_tolerate_percent": ("e", "(EVar V_minp)", "U32"),
            "self.max_packsize_tolerate_percent": ("e", "(EVar V_maxp)", "U32"),
            "size": ("e", "(EVar V_size)", "U32"), "target_size": ("e", "(EVar V_target)", "U32"),
            "constants::MAX_SIZE": ("e", "(EConst MAX_SIZE)", "U32")}
    psb = " ".join(fn_body(pk, "pack_size").split())
    m = re.fullmatch(r"let size = if (.+?) \{ (.+?) \} else \{ (.+?) \}; (.+)", psb)
    if not m: raise ExtractError("PackSizer::pack_size no longer has the shape `let size = if c { a } else { b }; r`: " + psb[:120])
    st = Tr(dict(sctx))
    out.append("Definition pack_size_cond : cond := %s." % st.c(parse_expr(m.group(1))))
    out.append("Definition pack_size_then : expr := %s." % st.e(parse_expr(m.group(2)))[0])
    out.append("Definition pack_size_else : expr := %s." % st.e(parse_expr(m.group(3)))[0])
    st2 = Tr(dict(sctx, size=("e", "(EVar V_size)", "U32")))
    out.append("(* final expression of pack_size; `size` = V_size here *)")
    out.append("Definition pack_size_final : expr := %s." % st2.e(parse_expr(m.group(4)))[0])
    for fn in ("is_too_small", "is_too_large"):
        b = " ".join(fn_body(pk, fn).split())
        m = re.fullmatch(r"let target_size = self\.pack_size\(\); (.+)", b)
        if not m: raise ExtractError("PackSizer::%s no longer starts with `let target_size = self.pack_size();`" % fn)
        out.append("Definition %s_cond : cond := %s." % (fn, Tr(dict(sctx)).c(parse_expr(m.group(1)))))
    # ---- decide_repack limits
    db = fn_body(pr, "decide_repack")
    tb = " ".join(fn_body(pr, "total", nth=1).split())
    if tb != "self.used + self.unused": raise ExtractError("SizeStats::total changed: " + tb)
    lctx = {"self.stats.size_sum().used": ("e", "(EVar V_used)", "U64"),
            "self.stats.size_sum().unused": ("e", "(EVar V_unused)", "U64"),
            "self.stats.size_sum().total()": ("e", "(EBin OAdd U64 (EVar V_used) (EVar V_unused))", "U64")}
    def arms_of(var, scrut_re):
        m = re.search(r"let %s = match %s \{" % (var, scrut_re), db)
        if not m: raise ExtractError("decide_repack: `let %s = match ...` not found" % var)
        body = db[m.end():match_brace(db, m.end() - 1)]
        parts, depth, cur = [], 0, ""
        for ch in body:
            if ch in "([{": depth += 1
            elif ch in ")]}": depth -= 1
            if ch == "," and depth == 0:
                parts.append(cur); cur = ""
            else:
                cur += ch
                if ch == "}" and depth == 0 and re.search(r"=>\s*\{", cur):
                    parts.append(cur); cur = ""     # `pat => { expr }` needs no comma
        if cur.strip(): parts.append(cur)
        arms = []
        for p in parts:
            p = " ".join(p.split())
            if not p: continue
            mm = re.fullmatch(r"(.+?)(?: if (.+?))? => (.+)", p)
            if not mm: raise ExtractError("decide_repack: arm not recognised: " + p)
            pat, guard, val = mm.group(1), mm.group(2), mm.group(3)
            mb = re.fullmatch(r"\{ (.+) \}", val)
            if mb: val = mb.group(1)
            pm = re.fullmatch(r"\((true|false|_), (.+)\)", pat)
            flag = "None"
            if pm:
                flag = {"true": "(Some true)", "false": "(Some false)", "_": "None"}[pm.group(1)]; pat = pm.group(2)
            ctx = dict(lctx)
            if pat == "_": lp = "None"
            elif pat == "LimitOption::Unlimited": lp = "(Some LUnlimited)"
            else:
                pm2 = re.fullmatch(r"LimitOption::(Size|Percentage)\((\w+)\)", pat)
                if not pm2: raise ExtractError("decide_repack: pattern not recognised: " + pat)
                lp = "(Some L%s)" % pm2.group(1)
                if pm2.group(1) == "Size": ctx[pm2.group(2) + ".as_u64()"] = ("e", "(EVar V_p)", "U64")
                else: ctx[pm2.group(2)] = ("e", "(EVar V_p)", "U64")
            t = Tr(ctx)
            g = t.c(parse_expr(guard)) if guard else "(CConst true)"
            v, vt = t.e(parse_expr(val), "U64")
            arms.append("mkarm %s %s %s %s" % (flag, lp, g, v))
        return arms
    out.append("Definition max_unused_arms : list arm :=\n  [ " + ";\n    ".join(arms_of("max_unused", r"\(repack_uncompressed, max_unused\)")) + " ].")
    out.append("Definition max_repack_arms : list arm :=\n  [ " + ";\n    ".join(arms_of("max_repack", r"max_repack")) + " ].")
    out.append("Definition n_error_sites : N := %d." % len(errs.l))
    meta = {"cfields": [(n, ctys[n][0], ctys[n][1]) for n, _ in cfields],
            "ofields": [(n, otys[n][0]) for n, _ in ofields],
            "errors": errs.l, "shapes": shapes, "consts": consts, "steps": steps}
    return "\n".join(out) + "\n", meta

if __name__ == "__main__":
    repo = sys.argv[1] if len(sys.argv) > 1 else "/repo"
    txt, meta = gen(repo)
    sys.stdout.write(txt)
    import json
    sys.stderr.write(json.dumps(meta["shapes"]) + "\n" + json.dumps(meta["errors"], indent=0) + "\n")
