(* C18 — well-formedness is preserved by `apply`; accepted configurations construct a
   working chunker; PackSizer and the prune limits never panic. *)
From Verif.Base Require Import Tactics.
From Verif.C18 Require Import ModelBase Extracted Model Proofs.
Local Open Scope Z_scope.
Local Arguments N.eqb : simpl nomatch.

(* ------------------------------------------------------------------ well-formed records *)

Definition cwf (c : config) : Prop :=
  (forall g, In g cfields -> field_ok cfield_ty c g = true) /\
  (forall g, In g cfields_required -> c g <> None).
Definition owf (o : opts) : Prop := forall f, In f ofields -> field_ok ofield_ty o f = true.

Lemma config_wf_iff c : config_wf c = true <-> cwf c.
Proof.
  unfold config_wf, cwf. rewrite andb_true_iff, !forallb_forall. split; intros [A B]; split; auto.
  - intros g Hg. specialize (B g Hg). destruct (c g); congruence.
  - intros g Hg. specialize (B g Hg). destruct (c g); congruence.
Qed.
Lemma opts_wf_iff o : opts_wf o = true <-> owf o.
Proof. unfold opts_wf, owf. rewrite forallb_forall. tauto. Qed.

Definition ty_eqb (a b : ty) : bool :=
  match a, b with U32, U32 | U64, U64 | I32, I32 => true | _, _ => false end.
Definition vty_eqb (a b : vty) : bool :=
  match a, b with
  | TInt x, TInt y => ty_eqb x y
  | TBool, TBool => true
  | TEnum n, TEnum m => n =? m
  | TOpaque, TOpaque => true
  | _, _ => false
  end.
Lemma vty_eqb_eq a b : vty_eqb a b = true -> a = b.
Proof.
  destruct a as [x| |n|], b as [y| |m|]; cbn; try discriminate; try reflexivity.
  - destruct x, y; cbn; congruence.
  - intro H. f_equal. lia.
Qed.

Definition in_ofields (f : N) : bool := existsb (N.eqb f) ofields.
(* the value an `apply` statement stores has the type of the field it is stored in *)
Definition step_ty_ok (s : step) : bool :=
  match s with
  | SVersion f g _ _ _ _ | SSet f g | SGuardSet f g _ => in_ofields f && vty_eqb (ofield_ty f) (cfield_ty g)
  | SSetConv f g t _ => vty_eqb (cfield_ty g) (TInt t)
  | SCheck _ _ => true
  | SAssign _ _ => false
  end.

Lemma cwf_upd c g v : cwf c -> val_ok (cfield_ty g) v = true -> cwf (upd c g (Some v)).
Proof.
  intros [A B] Hv. split; intros g' Hg'.
  - unfold field_ok, upd. destruct (N.eqb_spec g' g); [subst; exact Hv|]. apply (A g' Hg').
  - unfold upd. destruct (N.eqb_spec g' g); [discriminate|]. apply (B g' Hg').
Qed.

Lemma owf_val o f v : owf o -> in_ofields f = true -> o f = Some v -> val_ok (ofield_ty f) v = true.
Proof.
  intros H Hin Ho. unfold in_ofields in Hin. apply existsb_exists in Hin. destruct Hin as (f' & Hf & E).
  apply N.eqb_eq in E. subst f'. specialize (H f Hf). unfold field_ok in H. rewrite Ho in H. exact H.
Qed.

Lemma step_wf o s c : cwf c -> owf o -> step_ty_ok s = true -> cwf (fst (step_apply o s c)).
Proof.
  intros Hc Ho Ht.
  destruct s; cbn [step_apply step_ty_ok] in *; try discriminate;
    try (destruct (o f) as [v|] eqn:Eo; [|exact Hc]).
  - apply andb_true_iff in Ht. destruct Ht as [Hin Hty]. apply vty_eqb_eq in Hty.
    repeat destr_if; cbn [fst]; try exact Hc. apply cwf_upd; [exact Hc|].
    rewrite <- Hty. eapply owf_val; eauto.
  - apply andb_true_iff in Ht. destruct Ht as [Hin Hty]. apply vty_eqb_eq in Hty.
    cbn [fst]. apply cwf_upd; [exact Hc|]. rewrite <- Hty. eapply owf_val; eauto.
  - apply vty_eqb_eq in Ht. destr_if; cbn [fst]; try exact Hc.
    apply cwf_upd; [exact Hc|]. rewrite Ht. cbn [val_ok]. assumption.
  - apply andb_true_iff in Ht. destruct Ht as [Hin Hty]. apply vty_eqb_eq in Hty.
    destruct (run_checks (cfg_env c v) checks); cbn [fst]; try exact Hc.
    apply cwf_upd; [exact Hc|]. rewrite <- Hty. eapply owf_val; eauto.
  - destruct (evalc (cfg_env c 0) pre) as [[|]|]; exact Hc.
Qed.

Lemma run_steps_wf o l : forall c, cwf c -> owf o -> forallb step_ty_ok l = true -> cwf (fst (run_steps o l c)).
Proof.
  induction l as [|s r IH]; intros c Hc Ho Ht; [exact Hc|].
  cbn [forallb] in Ht. apply andb_true_iff in Ht. destruct Ht as [Hs Hr].
  rewrite run_steps_cons. pose proof (step_wf o s c Hc Ho Hs) as W.
  destruct (step_apply o s c) as [c1 r1]. cbn [fst] in W. destruct r1; cbn [fst]; try exact W.
  apply IH; assumption.
Qed.

Lemma apply_steps_typed : forallb step_ty_ok apply_steps = true.
Proof. vm_compute. reflexivity. Qed.

Lemma apply_preserves_wf_lemma : forall o c c',
  config_wf c = true -> opts_wf o = true -> apply o c = Some c' -> config_wf c' = true.
Proof.
  intros o c c' Hc Ho Ha. apply config_wf_iff. apply config_wf_iff in Hc. apply opts_wf_iff in Ho.
  pose proof (run_steps_wf o apply_steps c Hc Ho apply_steps_typed) as W.
  unfold apply, apply_mut in Ha. destruct (run_steps o apply_steps c) as [c1 r1]. destruct r1; inv Ha. exact W.
Qed.

Lemma new_config_wf : forall id poly, config_wf (new_config id poly) = true.
Proof. intros. vm_compute. reflexivity. Qed.

(* a stored integer field, read with its default, is a value of its type *)
Lemma getd_in_ty c g t d :
  cwf c -> In g cfields -> cfield_ty g = TInt t -> in_ty t d = true -> in_ty t (getd c g d) = true.
Proof.
  intros [A _] Hg Ht Hd. specialize (A g Hg). unfold field_ok, getd in *.
  destruct (c g); [|exact Hd]. rewrite Ht in A. exact A.
Qed.

(* ------------------------------------------------------------------ accepted => working chunker *)

Lemma run_checks_done_head env c e r : run_checks env ((c, e) :: r) = Done -> evalc env c = Some false.
Proof. cbn [run_checks]. destruct (evalc env c) as [[|]|]; congruence. Qed.

Lemma chunk_size_in_usize c : cwf c -> in_ty U64 (cfg_chunk_size c) = true.
Proof.
  intro H. unfold cfg_chunk_size. apply getd_in_ty; [exact H| | |]; vm_compute; auto 20.
Qed.

Lemma rabin_check_in_apply :
  exists rest, In (CCmp KEq (EVar V_chunker) (EConst CHUNKER_RABIN), rabin_checks, rest) (checks_in apply_steps)
               /\ env_untouched rest = true.
Proof.
  eexists. split.
  - vm_compute checks_in. repeat first [left; reflexivity | right].
  - vm_compute. reflexivity.
Qed.

Lemma fixed_check_in_apply :
  exists e rest,
    In (CConst true,
        [(CAnd (CCmp KEq (EVar V_chunker) (EConst CHUNKER_FIXED)) (CCmp KEq (EVar V_cs) (EConst 0)), e)],
        rest) (checks_in apply_steps)
    /\ env_untouched rest = true.
Proof.
  do 2 eexists. split.
  - vm_compute checks_in. repeat first [left; reflexivity | right].
  - vm_compute. reflexivity.
Qed.

Lemma accepted_chunker_ok_lemma : forall o c c',
  config_wf c' = true -> apply o c = Some c' ->
  chunker_new c' = Done /\ chunker_progress c' = true.
Proof.
  intros o c c' Hwf Ha. apply config_wf_iff in Hwf.
  pose proof (chunk_size_in_usize c' Hwf) as Hcs. unfold in_ty in Hcs. cbn [ty_min ty_max] in Hcs.
  split.
  - destruct rabin_check_in_apply as (rest & Hin & Hu).
    pose proof (apply_checks_hold o c c' _ _ _ Ha Hin Hu) as H.
    unfold chunker_new. destruct (cfg_chunker c' =? CHUNKER_RABIN) eqn:Ec; [|reflexivity].
    destruct H as [H|[_ H]].
    + cbn in H. inv H. lia.
    + change (check_rabin_params (cfg_chunk_size c') (cfg_chunk_min_size c') (cfg_chunk_max_size c'))
        with (run_checks (cfg_env c' 0) rabin_checks).
      rewrite H.
      (* the first Rabin check is the power-of-two test, so the size is positive *)
      unfold rabin_checks in H. apply run_checks_done_head in H. cbn in H.
      unfold is_pow2 in H. unfold chk, in_ty. cbn [ty_min ty_max].
      destruct (0 <? cfg_chunk_size c') eqn:P; cbn in H; [|discriminate].
      replace ((0 <=? cfg_chunk_size c' - 1) && (cfg_chunk_size c' - 1 <=? 18446744073709551615)) with true by lia.
      reflexivity.
  - destruct fixed_check_in_apply as (e & rest & Hin & Hu).
    pose proof (apply_checks_hold o c c' _ _ _ Ha Hin Hu) as H.
    unfold chunker_progress. destruct (cfg_chunker c' =? CHUNKER_FIXED) eqn:Ec; [|reflexivity].
    destruct H as [H|[_ H]]; [cbn in H; discriminate|].
    apply run_checks_done_head in H. cbn in H. unfold CHUNKER_FIXED in *.
    destruct (cfg_chunker c' =? 1) eqn:E1; [|lia]. cbn in H.
    destruct (cfg_chunk_size c' =? 0) eqn:E0; [discriminate|]. lia.
Qed.

(* the only parameter-dependent arithmetic of the Rabin iterator that remains (property C06):
   safe when the minimum size covers the read-buffer leftover *)
Lemma rabin_next_arith_ok_lemma : forall mn leftover len,
  BUF_SIZE - 1 <= mn -> mn <= ty_max U64 -> 0 <= leftover <= BUF_SIZE - 1 -> mn <= len <= ty_max U64 ->
  rabin_next_arith mn leftover len <> None.
Proof.
  intros mn leftover len H1 H2 H3 H4. unfold rabin_next_arith, chk, in_ty, BUF_SIZE in *. cbn [ty_min ty_max] in *.
  replace ((0 <=? mn - leftover) && (mn - leftover <=? 18446744073709551615)) with true by lia.
  replace ((0 <=? len - 64) && (len - 64 <=? 18446744073709551615)) with true by lia.
  discriminate.
Qed.

(* ------------------------------------------------------------------ PackSizer *)

Definition sizer_wf (s : sizer) : Prop :=
  in_ty U32 (ps_default s) = true /\ in_ty U32 (ps_grow s) = true /\ in_ty U32 (ps_limit s) = true /\
  in_ty U64 (ps_current s) = true /\ in_ty U32 (ps_minp s) = true /\ in_ty U32 (ps_maxp s) = true.

Lemma chk_some t z : in_ty t z = true -> chk t z = Some z.
Proof. unfold chk. intros ->. reflexivity. Qed.

Lemma pack_size_total_lemma : forall s, sizer_wf s ->
  exists t, pack_size s = Some t /\ 0 <= t <= MAX_SIZE.
Proof.
  intros s (Hd & Hg & Hl & Hc & _ & _). unfold in_ty in *. cbn [ty_min ty_max] in *.
  unfold pack_size, pack_size_cond, pack_size_then, pack_size_else, pack_size_final.
  cbn [evalc eval cmp]. unfold sizer_env at 1 2. cbn [N.eqb Pos.eqb V_grow V_default V_limit V_current V_minp V_maxp V_size V_target].
  destruct (ps_grow s =? 0) eqn:G.
  - cbn. eexists. split; [reflexivity|]. unfold MAX_SIZE. lia.
  - cbn. eexists. split; [reflexivity|]. unfold MAX_SIZE, clamp. cbn [ty_min ty_max]. lia.
Qed.

Lemma is_too_small_large_total_lemma : forall s size, sizer_wf s -> in_ty U32 size = true ->
  pack_size s <> None /\ is_too_small s size <> None /\ is_too_large s size <> None.
Proof.
  intros s size W Hs. destruct (pack_size_total_lemma s W) as (t & Ep & Ht).
  destruct W as (_ & _ & _ & _ & Hmin & Hmax). unfold in_ty in *. cbn [ty_min ty_max] in *.
  unfold is_too_small, is_too_large. rewrite Ep.
  unfold is_too_small_cond, is_too_large_cond, MAX_SIZE in *.
  assert (A : chk U64 (size * 100) = Some (size * 100)) by (apply chk_some; unfold in_ty; cbn [ty_min ty_max]; lia).
  assert (B : chk U64 (t * ps_minp s) = Some (t * ps_minp s)) by (apply chk_some; unfold in_ty; cbn [ty_min ty_max]; nia).
  assert (C : chk U64 (t * ps_maxp s) = Some (t * ps_maxp s)) by (apply chk_some; unfold in_ty; cbn [ty_min ty_max]; nia).
  repeat split; try congruence; cbn; rewrite A, ?B, ?C; discriminate.
Qed.

Lemma sizer_of_config_wf c data cur : cwf c -> in_ty U64 cur = true -> sizer_wf (sizer_of_config c data cur).
Proof.
  intros H Hc. unfold sizer_wf, sizer_of_config. cbn [ps_default ps_grow ps_limit ps_current ps_minp ps_maxp].
  repeat split; try exact Hc; try (destruct data; apply getd_in_ty; try exact H; vm_compute; auto 25; fail);
    try (apply getd_in_ty; try exact H; vm_compute; auto 25; fail).
  destruct H as [A _]. specialize (A C_max_packsize_tolerate_percent). unfold field_ok in A.
  destruct (c C_max_packsize_tolerate_percent) as [p|]; [|reflexivity].
  destruct (p =? 0); [reflexivity|]. apply A. vm_compute. auto 25.
Qed.

Lemma config_sizer_no_panic_lemma : forall c data cur size,
  config_wf c = true -> in_ty U64 cur = true -> in_ty U32 size = true ->
  pack_size (sizer_of_config c data cur) <> None /\
  is_too_small (sizer_of_config c data cur) size <> None /\
  is_too_large (sizer_of_config c data cur) size <> None.
Proof.
  intros c data cur size H Hc Hs. apply config_wf_iff in H.
  apply is_too_small_large_total_lemma; [apply sizer_of_config_wf; assumption|exact Hs].
Qed.

(* ------------------------------------------------------------------ prune limits *)

Lemma div_in_u64 a b : 0 <= a <= 18446744073709551615 -> 0 < b -> in_ty U64 (a / b) = true.
Proof.
  intros Ha Hb. unfold in_ty. cbn [ty_min ty_max].
  assert (0 <= a / b) by (apply Z.div_pos; lia).
  assert (a / b <= a) by (apply Z.div_le_upper_bound; nia).
  lia.
Qed.

Lemma limits_no_panic_lemma : forall flag l used unused,
  limit_wf l = true -> 0 <= used -> 0 <= unused -> used + unused <= ty_max U64 ->
  max_unused_limit flag l used unused <> None /\ max_repack_limit l used unused <> None.
Proof.
  intros flag l used unused Hl Hu Hn Hsum. unfold limit_wf, in_ty in Hl. cbn [ty_min ty_max] in *.
  unfold max_unused_limit, max_repack_limit, max_unused_arms, max_repack_arms.
  split.
  - destruct flag, l as [|n|p]; cbn; try discriminate.
    cbn [lim_val] in Hl. destruct (100 <=? p) eqn:P; cbn; [discriminate|].
    unfold chk at 1. unfold in_ty. cbn [ty_min ty_max].
    replace ((0 <=? 100 - p) && (100 - p <=? 18446744073709551615)) with true by lia. cbn.
    replace (100 - p =? 0) with false by lia.
    rewrite chk_some; [discriminate|]. apply div_in_u64; [|lia].
    unfold clamp. cbn [ty_min ty_max]. lia.
  - destruct l as [|n|p]; cbn; try discriminate.
    rewrite chk_some by (unfold in_ty; cbn [ty_min ty_max]; lia). cbn.
    rewrite chk_some; [discriminate|]. apply div_in_u64; [|lia].
    unfold clamp. cbn [ty_min ty_max]. lia.
Qed.

(* ------------------------------------------------------------------ the combined statement *)

Lemma accepted_params_no_panic_lemma : forall o c c',
  config_wf c = true -> opts_wf o = true ->
  snd (apply_mut o c) <> Panic /\
  (apply o c = Some c' ->
   config_wf c' = true /\
   chunker_new c' = Done /\ chunker_progress c' = true /\
   forall data cur size, in_ty U64 cur = true -> in_ty U32 size = true ->
     pack_size (sizer_of_config c' data cur) <> None /\
     is_too_small (sizer_of_config c' data cur) size <> None /\
     is_too_large (sizer_of_config c' data cur) size <> None).
Proof.
  intros o c c' Hc Ho. split; [apply apply_no_panic_lemma|]. intro Ha.
  pose proof (apply_preserves_wf_lemma o c c' Hc Ho Ha) as W.
  destruct (accepted_chunker_ok_lemma o c c' W Ha) as [A B].
  split; [exact W|]. split; [exact A|]. split; [exact B|].
  intros data cur size H1 H2. apply config_sizer_no_panic_lemma; assumption.
Qed.
