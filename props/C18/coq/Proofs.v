(* C18 — lemmas about the model of ConfigOptions::apply / apply_config. *)
From Verif.Base Require Import Tactics.
From Verif.C18 Require Import ModelBase Extracted Model.
Local Open Scope Z_scope.

(* ------------------------------------------------------------------ basics *)

Lemma upd_other c g0 v g : g <> g0 -> upd c g0 v g = c g.
Proof. unfold upd. intro H. destruct (N.eqb_spec g g0); congruence. Qed.
Lemma upd_same c g v : upd c g v g = v.
Proof. unfold upd. rewrite N.eqb_refl. reflexivity. Qed.

Lemma run_steps_cons o s r c :
  run_steps o (s :: r) c =
  match step_apply o s c with (c', Done) => run_steps o r c' | (c', res) => (c', res) end.
Proof. reflexivity. Qed.

(* a statement changes at most the field it targets *)
Lemma step_untouched o s c g :
  ~ In g (map snd (step_writes s)) -> fst (step_apply o s c) g = c g.
Proof.
  intro H.
  destruct s; cbn [step_apply step_writes map snd In] in *;
    try (destruct (o f) as [v|]; [|reflexivity]);
    repeat destr_if; cbn [fst]; try reflexivity;
    try (apply upd_other; intro; subst; apply H; left; reflexivity).
  - destruct (run_checks (cfg_env c v) checks); cbn [fst]; try reflexivity.
    apply upd_other; intro; subst; apply H; left; reflexivity.
  - destruct (evalc (cfg_env c 0) pre) as [[|]|]; reflexivity.
Qed.

Lemma run_steps_untouched o l : forall c g,
  ~ In g (map snd (writes l)) -> fst (run_steps o l c) g = c g.
Proof.
  induction l as [|s r IH]; intros c g H; [reflexivity|].
  rewrite run_steps_cons.
  unfold writes in H. cbn [flat_map] in H. rewrite map_app, in_app_iff in H.
  pose proof (step_untouched o s c g (fun X => H (or_introl X))) as E.
  destruct (step_apply o s c) as [c1 r1]. cbn [fst] in E.
  destruct r1; cbn [fst]; try exact E.
  rewrite IH by (intro X; apply H; right; exact X). exact E.
Qed.

(* ------------------------------------------------------------------ frame *)

(* a conditional statement leaves its target alone when its option is not given *)
Lemma step_frame o s c g :
  is_uncond s = false ->
  (forall f, In (f, g) (step_writes s) -> o f = None) ->
  fst (step_apply o s c) g = c g.
Proof.
  intros Hu H.
  destruct (in_dec N.eq_dec g (map snd (step_writes s))) as [Hin|Hnin];
    [|apply step_untouched; exact Hnin].
  destruct s; cbn [step_writes map snd In] in Hin; try discriminate;
    try (destruct Hin as [<-|[]]; cbn [step_apply step_writes] in *;
         rewrite (H f (or_introl eq_refl)); reflexivity).
  destruct Hin.
Qed.

Lemma run_steps_frame o l : forall c g,
  forallb is_uncond l = false \/ True ->
  existsb is_uncond l = false ->
  (forall f, In (f, g) (writes l) -> o f = None) ->
  fst (run_steps o l c) g = c g.
Proof.
  induction l as [|s r IH]; intros c g _ Hu H; [reflexivity|].
  cbn [existsb] in Hu. apply orb_false_iff in Hu. destruct Hu as [Hs Hr].
  rewrite run_steps_cons.
  assert (E : fst (step_apply o s c) g = c g).
  { apply step_frame; [exact Hs|]. intros f Hf. apply H. unfold writes. cbn [flat_map].
    apply in_or_app. left. exact Hf. }
  destruct (step_apply o s c) as [c1 r1]. cbn [fst] in E.
  destruct r1; cbn [fst]; try exact E.
  rewrite IH; [exact E|right; exact I|exact Hr|].
  intros f Hf. apply H. unfold writes. cbn [flat_map]. apply in_or_app. right. exact Hf.
Qed.

(* what the source says now: no statement of `apply` assigns unconditionally *)
Lemma apply_steps_all_conditional : existsb is_uncond apply_steps = false.
Proof. vm_compute. reflexivity. Qed.

Lemma apply_mut_frame_lemma : forall o c g,
  (forall f, In (f, g) (writes apply_steps) -> o f = None) ->
  fst (apply_mut o c) g = c g.
Proof.
  intros. unfold apply_mut. apply run_steps_frame;
    [right; exact I|exact apply_steps_all_conditional|assumption].
Qed.

Lemma apply_frame_lemma : forall o c c' g,
  apply o c = Some c' ->
  (forall f, In (f, g) (writes apply_steps) -> o f = None) ->
  c' g = c g.
Proof.
  intros o c c' g Ha H. pose proof (apply_mut_frame_lemma o c g H) as E.
  unfold apply in Ha. destruct (apply_mut o c) as [c1 r1]. destruct r1; inv Ha. exact E.
Qed.

(* fields no statement targets at all (id, chunker_polynomial, is_hot) never change *)
Lemma apply_mut_never_touches : forall o c g,
  ~ In g (map snd (writes apply_steps)) -> fst (apply_mut o c) g = c g.
Proof. intros. apply run_steps_untouched. assumption. Qed.

(* ------------------------------------------------------------------ a named setting is set *)

Lemma step_sets o s c c1 f g v :
  step_apply o s c = (c1, Done) -> In (f, g) (step_writes s) -> o f = Some v -> c1 g = Some v.
Proof.
  intros Hs Hin Ho.
  destruct s; cbn [step_writes In] in Hin; try (destruct Hin as [Hin|[]]; inv Hin);
    cbn [step_apply] in Hs; try rewrite Ho in Hs.
  - repeat destr_if; inv Hs. apply upd_same.
  - inv Hs. apply upd_same.
  - destr_if; inv Hs. apply upd_same.
  - destruct (run_checks (cfg_env c v) checks); inv Hs. apply upd_same.
  - destruct Hin.
  - inv Hs. apply upd_same.
Qed.

Lemma NoDup_app_r {A} (l1 l2 : list A) : NoDup (l1 ++ l2) -> NoDup l2.
Proof. induction l1 as [|a l IH]; cbn [app]; intro H; [exact H|]. inv H. auto. Qed.
Lemma NoDup_app_disj {A} (l1 l2 : list A) x : NoDup (l1 ++ l2) -> In x l1 -> In x l2 -> False.
Proof.
  induction l1 as [|a l IH]; cbn [app In]; intros H H1 H2; [destruct H1|].
  apply NoDup_cons_iff in H. destruct H as [Hn Hd]. destruct H1 as [->|H1].
  - apply Hn. apply in_or_app. right. exact H2.
  - eauto.
Qed.

Lemma run_steps_sets o l : forall c c' f g v,
  run_steps o l c = (c', Done) -> NoDup (map snd (writes l)) ->
  In (f, g) (writes l) -> o f = Some v -> c' g = Some v.
Proof.
  induction l as [|s r IH]; intros c c' f g v Hr Hnd Hin Ho; [destruct Hin|].
  rewrite run_steps_cons in Hr.
  unfold writes in Hnd, Hin. cbn [flat_map] in Hnd, Hin. rewrite map_app in Hnd.
  destruct (step_apply o s c) as [c1 r1] eqn:Es.
  destruct r1; try (inv Hr; fail).
  apply in_app_or in Hin. destruct Hin as [Hin|Hin].
  - pose proof (step_sets o s c c1 f g v Es Hin Ho) as E1.
    pose proof (run_steps_untouched o r c1 g) as E2.
    rewrite Hr in E2. cbn [fst] in E2. rewrite E2; [exact E1|].
    intro X. apply (NoDup_app_disj _ _ g Hnd); [|exact X].
    apply in_map_iff. exists (f, g). split; [reflexivity|exact Hin].
  - eapply IH; eauto. apply NoDup_app_r in Hnd. exact Hnd.
Qed.

Lemma apply_steps_targets_distinct : NoDup (map snd (writes apply_steps)).
Proof.
  vm_compute. repeat (constructor; [cbn [In]; intuition discriminate|]). constructor.
Qed.

Lemma apply_sets_named_lemma : forall o c c' f g v,
  apply o c = Some c' -> In (f, g) (writes apply_steps) -> o f = Some v -> c' g = Some v.
Proof.
  intros o c c' f g v Ha Hin Ho. unfold apply, apply_mut in Ha.
  destruct (run_steps o apply_steps c) as [c1 r1] eqn:E. destruct r1; inv Ha.
  eapply run_steps_sets; eauto. exact apply_steps_targets_distinct.
Qed.

(* ------------------------------------------------------------------ version rules *)

Lemma apply_steps_head :
  exists e1 e2 rest, apply_steps = SVersion O_set_version C_version 1 2 e1 e2 :: rest.
Proof. do 3 eexists. reflexivity. Qed.

Lemma apply_refuses_downgrade_lemma : forall o c v cur,
  o O_set_version = Some v -> c C_version = Some cur -> v < cur -> apply o c = None.
Proof.
  intros o c v cur Ho Hc Hlt. destruct apply_steps_head as (e1 & e2 & rest & E).
  unfold apply, apply_mut. rewrite E, run_steps_cons. cbn [step_apply]. rewrite Ho.
  unfold getd. rewrite Hc.
  destruct (negb ((1 <=? v) && (v <=? 2))); [reflexivity|].
  destruct (v <? cur) eqn:L; [reflexivity|lia].
Qed.

Lemma apply_version_allowed_lemma : forall o c c' v,
  apply o c = Some c' -> o O_set_version = Some v ->
  1 <= v <= 2 /\ getd c C_version 0 <= v /\ c' C_version = Some v.
Proof.
  intros o c c' v Ha Ho.
  assert (Hset : c' C_version = Some v).
  { eapply apply_sets_named_lemma; eauto. vm_compute. left. reflexivity. }
  destruct apply_steps_head as (e1 & e2 & rest & E).
  unfold apply, apply_mut in Ha. rewrite E, run_steps_cons in Ha. cbn [step_apply] in Ha.
  rewrite Ho in Ha.
  destruct (negb ((1 <=? v) && (v <=? 2))) eqn:R; [inv Ha|].
  destruct (v <? getd c C_version 0) eqn:L; [inv Ha|].
  repeat split; try lia; exact Hset.
Qed.

(* ------------------------------------------------------------------ atomicity of apply_config *)

Lemma apply_config_refused_lemma : forall hot o mem st st' mem' r,
  apply_config hot o mem st = (st', mem', r) -> r <> RChanged -> st' = st /\ mem' = mem.
Proof.
  intros hot o mem st st' mem' r H Hr. unfold apply_config in H.
  destruct (opt_eqb (mem C_append_only) (Some 1) && negb (opt_eqb (o O_set_append_only) (Some 0))).
  - inv H. auto.
  - destruct (apply_mut o mem) as [new r1]. destruct r1.
    + destruct (config_eqb new mem); inv H; auto. congruence.
    + inv H. auto.
    + inv H. auto.
Qed.

Lemma apply_config_changed_lemma : forall hot o mem st st' mem',
  apply_config hot o mem st = (st', mem', RChanged) ->
  apply o mem = Some mem' /\ st' = save_config hot mem' st /\ config_eqb mem' mem = false.
Proof.
  intros hot o mem st st' mem' H. unfold apply_config in H. unfold apply.
  destruct (opt_eqb (mem C_append_only) (Some 1) && negb (opt_eqb (o O_set_append_only) (Some 0))); [inv H|].
  destruct (apply_mut o mem) as [new r1]. destruct r1; try (inv H; fail).
  destruct (config_eqb new mem) eqn:E; inv H. auto.
Qed.

Lemma apply_config_append_only_lemma : forall hot o mem st,
  mem C_append_only = Some 1 -> o O_set_append_only <> Some 0 ->
  apply_config hot o mem st = (st, mem, RRefused E_APPEND_ONLY).
Proof.
  intros hot o mem st Hs Ho. unfold apply_config. rewrite Hs. cbn [opt_eqb].
  replace (opt_eqb (o O_set_append_only) (Some 0)) with false; [reflexivity|].
  destruct (o O_set_append_only) as [z|]; cbn [opt_eqb]; [|reflexivity].
  destruct (Z.eqb_spec z 0); [subst; congruence|reflexivity].
Qed.

(* ------------------------------------------------------------------ no panic in apply *)

Fixpoint expr_total (e : expr) : bool :=
  match e with
  | EVar _ | EConst _ => true
  | EBin op _ a b =>
      match op with OAdd | OSub | OMul | ODiv => false | _ => expr_total a && expr_total b end
  | ECast _ a | EIsqrt a => expr_total a
  end.
Fixpoint cond_total (c : cond) : bool :=
  match c with
  | CCmp _ a b => expr_total a && expr_total b
  | CAnd a b | COr a b => cond_total a && cond_total b
  | CNot a => cond_total a
  | CPow2 a => expr_total a
  | CConst _ => true
  end.
Definition checks_total (l : list (cond * N)) : bool := forallb (fun p => cond_total (fst p)) l.
Definition step_total (s : step) : bool :=
  match s with
  | SGuardSet _ _ checks => checks_total checks
  | SCheck pre checks => cond_total pre && checks_total checks
  | _ => true
  end.

Lemma expr_total_eval env e : expr_total e = true -> exists v, eval env e = Some v.
Proof.
  induction e as [x|z|op t a IHa b IHb|t a IHa|a IHa]; cbn [expr_total eval]; intro H; eauto.
  - destruct op; try discriminate; apply andb_true_iff in H; destruct H as [Ha Hb];
      destruct (IHa Ha) as [va ->]; destruct (IHb Hb) as [vb ->]; cbn [eval_bin]; eauto.
  - destruct (IHa H) as [v ->]. eauto.
  - destruct (IHa H) as [v ->]. eauto.
Qed.
Lemma cond_total_eval env c : cond_total c = true -> exists b, evalc env c = Some b.
Proof.
  induction c as [op a b|a IHa b IHb|a IHa b IHb|a IHa|a|b]; cbn [cond_total evalc]; intro H.
  - apply andb_true_iff in H. destruct H as [Ha Hb].
    destruct (expr_total_eval env a Ha) as [va ->]. destruct (expr_total_eval env b Hb) as [vb ->]. eauto.
  - apply andb_true_iff in H. destruct H as [Ha Hb].
    destruct (IHa Ha) as [[|] ->]; eauto.
  - apply andb_true_iff in H. destruct H as [Ha Hb].
    destruct (IHa Ha) as [[|] ->]; eauto.
  - destruct (IHa H) as [x ->]. eauto.
  - destruct (expr_total_eval env a H) as [v ->]. eauto.
  - eauto.
Qed.
Lemma checks_total_run env l : checks_total l = true -> run_checks env l <> Panic.
Proof.
  induction l as [|[c e] r IH]; cbn [checks_total forallb run_checks fst]; intro H; [discriminate|].
  apply andb_true_iff in H. destruct H as [Hc Hr].
  destruct (cond_total_eval env c Hc) as [[|] ->]; [discriminate|]. apply IH. exact Hr.
Qed.
Lemma step_total_no_panic o s c : step_total s = true -> snd (step_apply o s c) <> Panic.
Proof.
  intro H. destruct s; cbn [step_apply step_total] in *;
    try (destruct (o f) as [v|]; [|cbn; discriminate]); repeat destr_if; cbn [snd]; try discriminate.
  - pose proof (checks_total_run (cfg_env c v) checks H) as P.
    destruct (run_checks (cfg_env c v) checks); cbn [snd]; congruence.
  - apply andb_true_iff in H. destruct H as [Hp Hc].
    destruct (cond_total_eval (cfg_env c 0) pre Hp) as [[|] ->]; cbn [snd]; [|discriminate].
    apply checks_total_run. exact Hc.
Qed.
Lemma run_steps_no_panic o l : forall c, forallb step_total l = true -> snd (run_steps o l c) <> Panic.
Proof.
  induction l as [|s r IH]; intros c H; [cbn; discriminate|].
  cbn [forallb] in H. apply andb_true_iff in H. destruct H as [Hs Hr].
  rewrite run_steps_cons. pose proof (step_total_no_panic o s c Hs) as P.
  destruct (step_apply o s c) as [c1 r1]. cbn [snd] in P.
  destruct r1; cbn [snd]; try congruence. apply IH. exact Hr.
Qed.

(* what the source says now: every validation in `apply` is free of checked +,-,*,/ *)
Lemma apply_steps_total : forallb step_total apply_steps = true.
Proof. vm_compute. reflexivity. Qed.

Lemma apply_no_panic_lemma : forall o c, snd (apply_mut o c) <> Panic.
Proof. intros. apply run_steps_no_panic. exact apply_steps_total. Qed.

Lemma rabin_checks_total : checks_total rabin_checks = true.
Proof. vm_compute. reflexivity. Qed.
Lemma check_rabin_params_no_panic_lemma : forall cs mn mx, check_rabin_params cs mn mx <> Panic.
Proof. intros. apply checks_total_run. exact rabin_checks_total. Qed.

(* ------------------------------------------------------------------ validations hold on the result *)

Lemma eval_ext e1 e2 e : (forall v, e1 v = e2 v) -> eval e1 e = eval e2 e.
Proof.
  intro H. induction e as [x|z|op t a IHa b IHb|t a IHa|a IHa]; cbn [eval];
    rewrite ?H, ?IHa, ?IHb; reflexivity.
Qed.
Lemma evalc_ext e1 e2 c : (forall v, e1 v = e2 v) -> evalc e1 c = evalc e2 c.
Proof.
  intro H. induction c as [op a b|a IHa b IHb|a IHa b IHb|a IHa|a|b]; cbn [evalc];
    rewrite ?(eval_ext e1 e2 _ H), ?IHa, ?IHb; reflexivity.
Qed.
Lemma run_checks_ext e1 e2 l : (forall v, e1 v = e2 v) -> run_checks e1 l = run_checks e2 l.
Proof.
  intro H. induction l as [|[c e] r IH]; [reflexivity|]. cbn [run_checks].
  rewrite (evalc_ext e1 e2 c H), IH. reflexivity.
Qed.

Definition env_fields : list N := [C_version; C_chunker; C_chunk_size; C_chunk_min_size; C_chunk_max_size].
Lemma cfg_env_agree c1 c2 x :
  (forall g, In g env_fields -> c1 g = c2 g) -> forall v, cfg_env c1 x v = cfg_env c2 x v.
Proof.
  intros H v. unfold cfg_env, cfg_version, cfg_chunker, cfg_chunk_size, cfg_chunk_min_size, cfg_chunk_max_size, getd.
  rewrite !(H C_version), !(H C_chunker), !(H C_chunk_size), !(H C_chunk_min_size), !(H C_chunk_max_size);
    try reflexivity; unfold env_fields; cbn [In]; auto 10.
Qed.

(* `if pre { checks }` succeeded on configuration c *)
Definition check_holds (c : config) (pre : cond) (checks : list (cond * N)) : Prop :=
  evalc (cfg_env c 0) pre = Some false \/
  (evalc (cfg_env c 0) pre = Some true /\ run_checks (cfg_env c 0) checks = Done).

(* the validation blocks of a statement list, each with the statements that follow it *)
Fixpoint checks_in (l : list step) : list (cond * list (cond * N) * list step) :=
  match l with
  | [] => []
  | SCheck pre checks :: r => (pre, checks, r) :: checks_in r
  | _ :: r => checks_in r
  end.
Definition env_untouched (rest : list step) : bool :=
  forallb (fun g => negb (existsb (N.eqb g) (map snd (writes rest)))) env_fields.

Lemma env_untouched_agree o rest c :
  env_untouched rest = true -> forall g, In g env_fields -> fst (run_steps o rest c) g = c g.
Proof.
  intros H g Hg. apply run_steps_untouched. unfold env_untouched in H.
  rewrite forallb_forall in H. specialize (H g Hg). apply negb_true_iff in H.
  intro X. assert (existsb (N.eqb g) (map snd (writes rest)) = true); [|congruence].
  apply existsb_exists. exists g. split; [exact X|apply N.eqb_refl].
Qed.

Lemma run_steps_checks_hold o l : forall c c',
  run_steps o l c = (c', Done) ->
  forall pre checks rest, In (pre, checks, rest) (checks_in l) -> env_untouched rest = true ->
  check_holds c' pre checks.
Proof.
  induction l as [|s r IH]; intros c c' Hr pre checks rest Hin Hu; [destruct Hin|].
  rewrite run_steps_cons in Hr.
  destruct (step_apply o s c) as [c1 r1] eqn:Es. destruct r1; try (inv Hr; fail).
  assert (Hrest : forall x, In x (checks_in r) -> In x (checks_in r)) by auto.
  destruct s; cbn [checks_in] in Hin; try (eapply IH; eauto; fail).
  destruct Hin as [Hin|Hin]; [|eapply IH; eauto].
  inv Hin. cbn [step_apply] in Es.
  pose proof (env_untouched_agree o rest c1 Hu) as Ag. rewrite Hr in Ag. cbn [fst] in Ag.
  assert (EE : forall v, cfg_env c' 0 v = cfg_env c1 0 v) by (apply cfg_env_agree; exact Ag).
  unfold check_holds. rewrite (evalc_ext _ _ pre EE), (run_checks_ext _ _ checks EE).
  destruct (evalc (cfg_env c 0) pre) as [[|]|] eqn:Ep; inv Es; auto.
Qed.

Lemma apply_checks_hold : forall o c c' pre checks rest,
  apply o c = Some c' -> In (pre, checks, rest) (checks_in apply_steps) -> env_untouched rest = true ->
  check_holds c' pre checks.
Proof.
  intros o c c' pre checks rest Ha Hin Hu. unfold apply, apply_mut in Ha.
  destruct (run_steps o apply_steps c) as [c1 r1] eqn:E. destruct r1; inv Ha.
  eapply run_steps_checks_hold; eauto.
Qed.

