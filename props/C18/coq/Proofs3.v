(* C18 — what is STORED: the cold config file and, for hot/cold repositories, the copy in the hot
   part, after init and after every apply_config; frame property for the stored files; every way
   of re-opening the repository passes open_raw's is_hot check.  The is_hot handling
   (save_config_stmts, save_config_hot_stmts, init_marks_hot_*, open_only_cold_marks_hot) is what
   the extractor found in save_config / save_config_hot / init / open_may_use_hot. *)
From Verif.Base Require Import Tactics.
From Verif.C18 Require Import ModelBase Extracted Model Proofs.
Local Open Scope Z_scope.

Definition stored_field (x : option config) (g : N) : option Z :=
  match x with Some c => c g | None => None end.

(* the stored files agree with repo.config(): the cold file is the config without hot marker, the
   hot copy is the config with the marker; a plain repository has no hot copy and no marker *)
Definition store_ok (hot : bool) (mem : config) (st : store) : Prop :=
  (exists sc, st_cold st = Some sc /\ forall g, sc g = upd mem C_is_hot None g) /\
  (if hot then (exists sh, st_hot st = Some sh /\ forall g, sh g = mem g) /\ mem C_is_hot = Some 1
   else st_hot st = None /\ mem C_is_hot = None).

Lemma upd_upd c g v w h : upd (upd c g v) g w h = upd c g w h.
Proof. unfold upd. destruct (N.eqb h g); reflexivity. Qed.
Lemma upd_id c g v h : c g = v -> upd c g v h = c h.
Proof. unfold upd. intro H. destruct (N.eqb_spec h g); [subst; auto|reflexivity]. Qed.
Lemma upd_ext c1 c2 g v h : (forall x, x <> g -> c1 x = c2 x) -> upd c1 g v h = upd c2 g v h.
Proof. unfold upd. intro H. destruct (N.eqb_spec h g); [reflexivity|auto]. Qed.

(* save_config as the source has it now: cold file without marker, hot copy with marker *)
Lemma save_config_spec : forall hot c st,
  (exists sc, st_cold (save_config hot c st) = Some sc /\ forall g, sc g = upd c C_is_hot None g) /\
  (if hot
   then exists sh, st_hot (save_config hot c st) = Some sh /\ forall g, sh g = upd c C_is_hot (Some 1) g
   else st_hot (save_config hot c st) = st_hot st).
Proof.
  intros hot c st. unfold save_config, save_config_stmts, save_config_hot_stmts.
  destruct hot; cbn [run_save run_hot_stmts st_cold st_hot]; split.
  - eexists. split; [reflexivity|]. intro g. reflexivity.
  - eexists. split; [reflexivity|]. intro g. apply upd_upd.
  - eexists. split; [reflexivity|]. intro g. reflexivity.
  - reflexivity.
Qed.

Lemma is_hot_not_targeted : ~ In C_is_hot (map snd (writes apply_steps)).
Proof. vm_compute. intuition discriminate. Qed.

Lemma apply_mut_keeps_is_hot o c : fst (apply_mut o c) C_is_hot = c C_is_hot.
Proof. apply apply_mut_never_touches. exact is_hot_not_targeted. Qed.

(* the store after a save of a config whose marker matches the kind of repository *)
Lemma save_config_store_ok (hot : bool) (c : config) (st : store) :
  (if hot then c C_is_hot = Some 1 else c C_is_hot = None /\ st_hot st = None) ->
  store_ok hot c (save_config hot c st).
Proof.
  intro H. destruct (save_config_spec hot c st) as [Hc Hh]. split; [exact Hc|].
  destruct hot.
  - destruct Hh as (sh & E & P). split; [|exact H]. exists sh. split; [exact E|].
    intro g. rewrite P. apply upd_id. exact H.
  - destruct H as [H1 H2]. split; [congruence|exact H1].
Qed.

Lemma init_marks_hot_somewhere : init_marks_hot_before_apply || init_marks_hot_after_write = true.
Proof. reflexivity. Qed.

Lemma store_ok_ext hot m1 m2 st : (forall g, m1 g = m2 g) -> store_ok hot m1 st -> store_ok hot m2 st.
Proof.
  intros E [(sc & Ec & Pc) Hh]. split.
  - exists sc. split; [exact Ec|]. intro g. rewrite Pc. unfold upd. destruct (N.eqb g C_is_hot); auto.
  - destruct hot.
    + destruct Hh as [(sh & Eh & Ph) Hm]. split; [|rewrite <- E; exact Hm].
      exists sh. split; [exact Eh|]. intro g. rewrite Ph. apply E.
    + destruct Hh as [A B]. split; [exact A|rewrite <- E; exact B].
Qed.

(* the store only depends on the config up to the marker *)
Lemma save_config_marker_irrelevant hot c v st g :
  stored_field (st_cold (save_config hot (upd c C_is_hot v) st)) g = stored_field (st_cold (save_config hot c st)) g /\
  stored_field (st_hot (save_config hot (upd c C_is_hot v) st)) g = stored_field (st_hot (save_config hot c st)) g.
Proof.
  destruct (save_config_spec hot (upd c C_is_hot v) st) as [(s1 & E1 & P1) H1].
  destruct (save_config_spec hot c st) as [(s2 & E2 & P2) H2].
  rewrite E1, E2. cbn [stored_field]. split.
  - rewrite P1, P2. apply upd_upd.
  - destruct hot.
    + destruct H1 as (h1 & F1 & Q1). destruct H2 as (h2 & F2 & Q2). rewrite F1, F2. cbn [stored_field].
      rewrite Q1, Q2. apply upd_upd.
    + rewrite H1, H2. reflexivity.
Qed.

Lemma init_store_ok_lemma : forall hot o id poly st mem,
  init_repo hot o id poly = (st, mem, Done) ->
  store_ok hot mem st /\ open_raw_ok mem hot = true.
Proof.
  intros hot o id poly st mem H. unfold init_repo in H.
  pose proof init_marks_hot_somewhere as M.
  pose proof (apply_mut_keeps_is_hot o (mark_hot (hot && init_marks_hot_before_apply) (new_config id poly))) as K.
  destruct (apply_mut o (mark_hot (hot && init_marks_hot_before_apply) (new_config id poly))) as [c r] eqn:E.
  cbn [fst] in K. destruct r; inv H.
  assert (N0 : new_config id poly C_is_hot = None) by reflexivity.
  revert K M. generalize init_marks_hot_before_apply, init_marks_hot_after_write. intros b1 b2 K M.
  destruct hot; cbn [andb mark_hot] in *.
  - (* hot/cold *)
    assert (Hm : mark_hot b2 c C_is_hot = Some 1).
    { destruct b2; cbn [mark_hot]; [apply upd_same|]. destruct b1; [|discriminate].
      cbn [mark_hot] in K. rewrite K. apply upd_same. }
    split.
    + destruct b2; cbn [mark_hot] in *.
      * (* marked after the write: the store is that of the unmarked/marked c, mem = c + marker *)
        pose proof (save_config_store_ok true (upd c C_is_hot (Some 1)) empty_store (upd_same _ _ _)) as S.
        destruct S as [(sc & Ec & Pc) [(sh & Eh & Ph) Hq]].
        pose proof (save_config_marker_irrelevant true c (Some 1) empty_store) as I.
        destruct (save_config_spec true c empty_store) as [(sc' & Ec' & Pc') (sh' & Eh' & Ph')].
        split.
        -- exists sc'. split; [exact Ec'|]. intro g. rewrite Pc'. symmetry. apply upd_upd.
        -- split; [|apply upd_same]. exists sh'. split; [exact Eh'|]. intro g. rewrite Ph'. reflexivity.
      * destruct b1; [|discriminate]. cbn [mark_hot] in K.
        apply save_config_store_ok. rewrite K. apply upd_same.
    + unfold open_raw_ok. rewrite Hm. reflexivity.
  - (* plain repository *)
    assert (Hn : c C_is_hot = None) by (rewrite K; exact N0).
    split.
    + apply save_config_store_ok. split; [exact Hn|reflexivity].
    + unfold open_raw_ok. rewrite Hn. reflexivity.
Qed.

Lemma apply_config_store_ok_lemma : forall hot o mem st st' mem' r,
  store_ok hot mem st -> apply_config hot o mem st = (st', mem', r) -> store_ok hot mem' st'.
Proof.
  intros hot o mem st st' mem' r S H.
  destruct r; try (apply apply_config_refused_lemma in H; [destruct H; subst; exact S|congruence]).
  apply apply_config_changed_lemma in H. destruct H as (Ha & -> & _).
  assert (K : mem' C_is_hot = mem C_is_hot).
  { pose proof (apply_mut_keeps_is_hot o mem) as K. unfold apply in Ha.
    destruct (apply_mut o mem) as [c r]. destruct r; inv Ha. exact K. }
  apply save_config_store_ok. destruct S as [_ Hh]. destruct hot.
  - destruct Hh as [_ Hm]. congruence.
  - destruct Hh as [A B]. split; congruence.
Qed.

Lemma apply_config_mem_frame : forall hot o mem st st' mem' r g,
  apply_config hot o mem st = (st', mem', r) ->
  (forall f, In (f, g) (writes apply_steps) -> o f = None) -> mem' g = mem g.
Proof.
  intros hot o mem st st' mem' r g H F.
  destruct r; try (apply apply_config_refused_lemma in H; [destruct H; subst; reflexivity|congruence]).
  apply apply_config_changed_lemma in H. destruct H as (Ha & _ & _).
  eapply apply_frame_lemma; eauto.
Qed.

(* frame property for the stored files *)
Lemma stored_frame_lemma : forall hot o mem st st' mem' r g,
  store_ok hot mem st -> apply_config hot o mem st = (st', mem', r) ->
  (forall f, In (f, g) (writes apply_steps) -> o f = None) ->
  stored_field (st_cold st') g = stored_field (st_cold st) g /\
  stored_field (st_hot st') g = stored_field (st_hot st) g.
Proof.
  intros hot o mem st st' mem' r g S H F.
  pose proof (apply_config_store_ok_lemma _ _ _ _ _ _ _ S H) as S'.
  pose proof (apply_config_mem_frame _ _ _ _ _ _ _ g H F) as E.
  destruct S as [(sc & Ec & Pc) Hh]. destruct S' as [(sc' & Ec' & Pc') Hh'].
  rewrite Ec, Ec'. cbn [stored_field]. split.
  - rewrite Pc, Pc'. unfold upd. destruct (N.eqb g C_is_hot); [reflexivity|exact E].
  - destruct hot.
    + destruct Hh as [(sh & Eh & Ph) _]. destruct Hh' as [(sh' & Eh' & Ph') _].
      rewrite Eh, Eh'. cbn [stored_field]. rewrite Ph, Ph'. exact E.
    + destruct Hh as [A _]. destruct Hh' as [A' _]. rewrite A, A'. reflexivity.
Qed.

(* a named setting of an effective change is what both stored files say *)
Lemma stored_named_lemma : forall hot o mem st st' mem' f g v,
  store_ok hot mem st -> apply_config hot o mem st = (st', mem', RChanged) ->
  In (f, g) (writes apply_steps) -> o f = Some v ->
  stored_field (st_cold st') g = Some v /\ (hot = true -> stored_field (st_hot st') g = Some v).
Proof.
  intros hot o mem st st' mem' f g v S H Hin Ho.
  pose proof (apply_config_store_ok_lemma _ _ _ _ _ _ _ S H) as S'.
  apply apply_config_changed_lemma in H. destruct H as (Ha & _ & _).
  pose proof (apply_sets_named_lemma _ _ _ _ _ _ Ha Hin Ho) as E.
  assert (Hg : g <> C_is_hot).
  { intro X. subst g. apply is_hot_not_targeted. apply in_map_iff. exists (f, C_is_hot). auto. }
  destruct S' as [(sc' & Ec' & Pc') Hh']. rewrite Ec'. cbn [stored_field]. split.
  - rewrite Pc'. rewrite upd_other by exact Hg. exact E.
  - intros ->. destruct Hh' as [(sh' & Eh' & Ph') _]. rewrite Eh'. cbn [stored_field]. rewrite Ph'. exact E.
Qed.

(* every way of opening the repository passes open_raw and sees the stored settings *)
Lemma reopen_ok_lemma : forall hot mem st h,
  store_ok hot mem st -> (how_has_hot h = true -> hot = true) ->
  exists c, open_config h st = Some c /\ open_raw_ok c (how_has_hot h) = true /\
            forall g, g <> C_is_hot -> c g = mem g.
Proof.
  intros hot mem st h [(sc & Ec & Pc) Hh] Hhow.
  assert (Hsc : sc C_is_hot = None) by (rewrite Pc; apply upd_same).
  destruct h; cbn [open_config how_has_hot] in *.
  - rewrite (Hhow eq_refl) in Hh. destruct Hh as [(sh & Eh & Ph) Hm].
    exists sh. split; [exact Eh|]. split; [unfold open_raw_ok; rewrite Ph, Hm; reflexivity|]. intros g _. apply Ph.
  - exists sc. split; [exact Ec|]. split; [unfold open_raw_ok; rewrite Hsc; reflexivity|].
    intros g Hg. rewrite Pc. apply upd_other. exact Hg.
  - rewrite Ec. eexists. split; [reflexivity|]. unfold open_only_cold_marks_hot. cbn [mark_hot]. split.
    + unfold open_raw_ok. rewrite upd_same. reflexivity.
    + intros g Hg. rewrite upd_other by exact Hg. rewrite Pc. apply upd_other. exact Hg.
Qed.

(* any history: init, then any sequence of configuration changes *)
Lemma apply_configs_store_ok_lemma : forall hot l mem st st' mem',
  store_ok hot mem st -> apply_configs hot l mem st = (st', mem') -> store_ok hot mem' st'.
Proof.
  intros hot l. induction l as [|o r IH]; intros mem st st' mem' S H; cbn [apply_configs] in H.
  - inv H. exact S.
  - destruct (apply_config hot o mem st) as [[st1 mem1] r1] eqn:E.
    eapply IH; [|exact H]. eapply apply_config_store_ok_lemma; eauto.
Qed.

Lemma history_store_ok_lemma : forall hot o id poly l st0 mem0 st mem h,
  init_repo hot o id poly = (st0, mem0, Done) -> apply_configs hot l mem0 st0 = (st, mem) ->
  (how_has_hot h = true -> hot = true) ->
  store_ok hot mem st /\
  exists c, open_config h st = Some c /\ open_raw_ok c (how_has_hot h) = true /\
            forall g, g <> C_is_hot -> c g = mem g.
Proof.
  intros hot o id poly l st0 mem0 st mem h Hi Hl Hh.
  pose proof (proj1 (init_store_ok_lemma _ _ _ _ _ _ Hi)) as S0.
  pose proof (apply_configs_store_ok_lemma _ _ _ _ _ _ S0 Hl) as S.
  split; [exact S|]. eapply reopen_ok_lemma; eauto.
Qed.
