(* C18 — the hypotheses of the property theorems are satisfiable (concrete instances). *)
From Verif.Base Require Import Tactics.
From Verif.C18 Require Import ModelBase Extracted Model History.
Local Open Scope Z_scope.

Definition ex_opts : opts :=
  mk [(O_set_chunker, CHUNKER_FIXED); (O_set_chunk_size, 8000); (O_set_compression, 3);
      (O_set_datapack_growfactor, 4294967295); (O_set_max_packsize_tolerate_percent, 0)].
Definition stored_field_ex (x : option config) (g : N) : option Z := match x with Some c => c g | None => None end.
Definition ex_stored : config := mk [(C_version, 2); (C_id, 7); (C_chunker_polynomial, 9); (C_extra_verify, 0)].

(* an accepted change; extra_verify and id are not named and stay *)
Example ex_accepted : exists c', apply ex_opts ex_stored = Some c' /\ c' C_extra_verify = Some 0
                                 /\ c' C_compression = Some 3 /\ c' C_id = Some 7.
Proof. vm_compute. eexists. repeat split. Qed.
Example ex_wf : config_wf ex_stored = true /\ opts_wf ex_opts = true /\ config_wf (new_config 7 9) = true.
Proof. repeat split; vm_compute; reflexivity. Qed.
(* frame hypothesis: no option that targets extra_verify is given *)
Example ex_frame_hyp : forall f, In (f, C_extra_verify) (writes apply_steps) -> ex_opts f = None.
Proof. vm_compute. intros f H. repeat (destruct H as [H|H]; [inv H; try reflexivity|]); destruct H. Qed.
(* a refused downgrade, a refused version 3, a refused change on an append-only repository *)
Example ex_downgrade : apply (mk [(O_set_version, 1)]) ex_stored = None.
Proof. vm_compute. reflexivity. Qed.
Definition ex_store : store := mkstore (Some ex_stored) None.
Example ex_refused_no_write : exists site,
  apply_config false (mk [(O_set_version, 3); (O_set_compression, 5)]) ex_stored ex_store = (ex_store, ex_stored, RRefused site).
Proof. vm_compute. eexists. reflexivity. Qed.
Example ex_changed_one_write : exists w s', apply_config false ex_opts ex_stored ex_store = (mkstore (Some w) None, s', RChanged).
Proof. vm_compute. do 2 eexists. reflexivity. Qed.
(* a hot/cold repository: init, an effective change, the three ways of opening *)
Example ex_hot_history :
  exists st0 mem0 st mem,
    init_repo true ex_opts 7 9 = (st0, mem0, Done) /\
    apply_configs true [mk [(O_set_compression, 7)]; mk [(O_set_version, 1)]] mem0 st0 = (st, mem) /\
    stored_field_ex (st_cold st) C_is_hot = None /\ stored_field_ex (st_hot st) C_is_hot = Some 1 /\
    stored_field_ex (st_cold st) C_compression = Some 7 /\ stored_field_ex (st_hot st) C_compression = Some 7.
Proof. vm_compute. do 4 eexists. repeat split. Qed.
(* limits: the formerly panicking percentages now have values *)
Example ex_limits : max_unused_limit false (Percentage 100) 1000 1000 = Some 18446744073709551615 /\
                    max_unused_limit false (Percentage 50) 1000 1000 = Some 1000 /\
                    max_repack_limit (Percentage 18446744073709551615) 1000 1000 = Some 184467440737095516.
Proof. repeat split; vm_compute; reflexivity. Qed.
Example ex_pack_size : pack_size (sizer_of_config (mk [(C_datapack_growfactor, 4294967295)]) true 1000000) = Some MAX_SIZE.
Proof. vm_compute. reflexivity. Qed.
