(* C18 — extraction of the executable model (ExtrOcamlBasic only). *)
Require Extraction.
Require Import ExtrOcamlBasic.
From Coq Require Import ZArith.
From Verif.C18 Require Import ModelBase Extracted Model.
Extraction "model_ml.ml" apply_mut apply apply_config init init_repo new_config empty_store open_config open_raw_ok cfields ofields
  check_rabin_params chunker_new chunker_progress rabin_next_arith
  sizer_of_config pack_size is_too_small is_too_large
  max_unused_limit max_repack_limit config_wf opts_wf writes apply_steps
  cfg_chunker cfg_chunk_size cfg_chunk_min_size cfg_chunk_max_size
  CHUNKER_RABIN BUF_SIZE ZSTD_MIN ZSTD_MAX Z.add Z.mul Z.div Z.modulo Z.ltb.
