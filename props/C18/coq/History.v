(* C18 — the statement list / expressions as they were extracted from the source BEFORE the
   `fix:` commits in the repository (8fd2e8e, 54fb88f, 96ea727, 62be225, 210059d), kept verbatim
   as hand-maintained history, and the witnesses that refute the property on them.
   Each witness was replayed on the real code before the fix (see NOTES.md). *)
From Verif.Base Require Import Tactics.
From Verif.C18 Require Import ModelBase Extracted Model.
Local Open Scope Z_scope.

Definition rabin_checks_0 : list (cond * N) :=
  [((CCmp KNe (EBin OBitAnd U64 (EVar V_cs) (EBin OSub U64 (EVar V_cs) (EConst (1)))) (EConst (0))), 0%N); ((CCmp KGt (EVar V_min) (EVar V_cs)), 1%N); ((CCmp KLt (EVar V_max) (EVar V_cs)), 2%N)].

Definition apply_steps_0 : list step :=
  [ SVersion O_set_version C_version (1) (2) 4%N 5%N;
    SSet O_set_chunker C_chunker;
    SSetConv O_set_chunk_size C_chunk_size U64 3%N;
    SSetConv O_set_chunk_min_size C_chunk_min_size U64 3%N;
    SSetConv O_set_chunk_max_size C_chunk_max_size U64 3%N;
    SCheck (CCmp KEq (EVar V_chunker) (EConst (0))) rabin_checks_0;
    SGuardSet O_set_compression C_compression [((CAnd (CCmp KEq (EVar V_version) (EConst (1))) (CCmp KNe (EVar V_x) (EConst (0)))), 6%N); ((CNot (CAnd (CCmp KLe (EConst ZSTD_MIN) (EVar V_x)) (CCmp KLe (EVar V_x) (EConst ZSTD_MAX)))), 7%N)];
    SSet O_set_append_only C_append_only;
    SSetConv O_set_treepack_size C_treepack_size U32 3%N;
    SSet O_set_treepack_growfactor C_treepack_growfactor;
    SSetConv O_set_treepack_size_limit C_treepack_size_limit U32 3%N;
    SSetConv O_set_datapack_size C_datapack_size U32 3%N;
    SSet O_set_datapack_growfactor C_datapack_growfactor;
    SSetConv O_set_datapack_size_limit C_datapack_size_limit U32 3%N;
    SGuardSet O_set_min_packsize_tolerate_percent C_min_packsize_tolerate_percent [((CCmp KGt (EVar V_x) (EConst (100))), 8%N)];
    SGuardSet O_set_max_packsize_tolerate_percent C_max_packsize_tolerate_percent [((CAnd (CCmp KLt (EVar V_x) (EConst (100))) (CCmp KGt (EVar V_x) (EConst (0)))), 9%N)];
    SAssign O_set_extra_verify C_extra_verify ].

Definition pack_size_else_0 : expr := (EBin OAdd U32 (EBin OMul U32 (ECast U32 (EIsqrt (EVar V_current))) (EVar V_grow)) (EVar V_default)).

Definition max_unused_arms_0 : list arm :=
  [ mkarm (Some true) None (CConst true) (EConst (0));
    mkarm (Some false) (Some LUnlimited) (CConst true) (EConst (18446744073709551615));
    mkarm (Some false) (Some LSize) (CConst true) (EVar V_p);
    mkarm (Some false) (Some LPercentage) (CConst true) (EBin ODiv U64 (EBin OMul U64 (EVar V_p) (EVar V_used)) (EBin OSub U64 (EConst (100)) (EVar V_p))) ].

Definition max_repack_arms_0 : list arm :=
  [ mkarm None (Some LUnlimited) (CConst true) (EConst (18446744073709551615));
    mkarm None (Some LSize) (CConst true) (EVar V_p);
    mkarm None (Some LPercentage) (CConst true) (EBin ODiv U64 (EBin OMul U64 (EVar V_p) (EBin OAdd U64 (EVar V_used) (EVar V_unused))) (EConst (100))) ].


Definition mk (l : list (N * Z)) : N -> option Z :=
  fun g => match find (fun p => N.eqb (fst p) g) l with Some p => Some (snd p) | None => None end.

(* #3: a change naming only the compression level erased a stored extra_verify = Some(false) *)
Lemma apply_frame_refuted_before_fix :
  exists o c c' g,
    run_steps o apply_steps_0 c = (c', Done) /\
    (forall f, In (f, g) (writes apply_steps_0) -> o f = None) /\
    c' g <> c g.
Proof.
  exists (mk [(O_set_compression, 3)]), (mk [(C_version, 2); (C_extra_verify, 0)]).
  eexists. exists C_extra_verify. split; [vm_compute; reflexivity|]. split.
  - vm_compute. intros f H. repeat (destruct H as [H|H]; [inv H; try reflexivity|]); try destruct H.
  - vm_compute. discriminate.
Qed.

(* #5: chunk size 0 made check_rabin_params compute 0 - 1 in usize *)
Lemma rabin_zero_panics_before_fix : run_checks (rabin_env 0 0 0) rabin_checks_0 = Panic.
Proof. vm_compute. reflexivity. Qed.
Lemma init_chunk_size_zero_panics_before_fix :
  snd (run_steps (mk [(O_set_chunk_size, 0)]) apply_steps_0 (new_config 7 9)) = Panic.
Proof. vm_compute. reflexivity. Qed.

(* #13: fixed-size chunker with chunk size 0 was accepted; the chunker then yields no chunk *)
Lemma fixed_size_zero_accepted_before_fix :
  let r := run_steps (mk [(O_set_chunker, CHUNKER_FIXED); (O_set_chunk_size, 0)]) apply_steps_0 (new_config 7 9) in
  snd r = Done /\ chunker_progress (fst r) = false.
Proof. split; vm_compute; reflexivity. Qed.

(* #14: grow factor u32::MAX was accepted; isqrt(current) * grow overflowed u32 *)
Lemma pack_size_overflow_before_fix :
  let r := run_steps (mk [(O_set_datapack_growfactor, 4294967295)]) apply_steps_0 (new_config 7 9) in
  snd r = Done /\
  eval (sizer_env (sizer_of_config (fst r) true 1000000) 0 0) pack_size_else_0 = None.
Proof. split; vm_compute; reflexivity. Qed.

(* #4: max_unused 100% divided by zero, 150% underflowed, huge percentages overflowed p * used / p * total *)
Lemma limits_panic_before_fix :
  eval_arms max_unused_arms_0 false (Percentage 100) 1000 1000 = None /\
    eval_arms max_unused_arms_0 false (Percentage 150) 1000 1000 = None /\
    eval_arms max_unused_arms_0 false (Percentage 99) 18446744073709551615 0 = None /\
    eval_arms max_repack_arms_0 false (Percentage 18446744073709551615) 1000 1000 = None.
Proof. repeat split; vm_compute; reflexivity. Qed.

(* repaired by the C06 fix (check_rabin_params rejects chunk_min_size < MIN_CHUNK_MIN_SIZE = BUF_SIZE):
   a Rabin minimum size below the read-buffer leftover underflowed `min_size -= open_buf_len`, below 64
   the prefill slice was out of range; such parameters are now refused *)
Lemma rabin_small_min_now_refused :
  let o := mk [(O_set_chunk_size, 1024); (O_set_chunk_min_size, 10); (O_set_chunk_max_size, 2048)] in
  opts_wf o = true /\ snd (apply_mut o (new_config 7 9)) <> Done /\
  rabin_next_arith 10 (BUF_SIZE - 1) 10 = None.
Proof. repeat split; vm_compute; congruence. Qed.
