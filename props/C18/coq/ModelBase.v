(* C18 — shared vocabulary of the model: fixed-width checked arithmetic, the small
   expression / condition language into which extract.py translates the Rust
   expressions it finds in the source, and the statement shapes of
   `ConfigOptions::apply`.  Evaluation returns `None` where the Rust debug build
   panics (overflow, underflow, division by zero). *)
From Verif.Base Require Import Tactics.
Local Open Scope Z_scope.

Inductive ty := U32 | U64 | I32.
Definition ty_min (t : ty) : Z := match t with I32 => - 2147483648 | _ => 0 end.
Definition ty_max (t : ty) : Z :=
  match t with U32 => 4294967295 | U64 => 18446744073709551615 | I32 => 2147483647 end.
Definition in_ty (t : ty) (z : Z) : bool := (ty_min t <=? z) && (z <=? ty_max t).
Definition chk (t : ty) (z : Z) : option Z := if in_ty t z then Some z else None.
Definition clamp (t : ty) (z : Z) : Z := Z.max (ty_min t) (Z.min (ty_max t) z).
Definition wrap (t : ty) (z : Z) : Z :=
  match t with
  | U32 => z mod 4294967296
  | U64 => z mod 18446744073709551616
  | I32 => ((z + 2147483648) mod 4294967296) - 2147483648
  end.

Inductive binop := OAdd | OSub | OMul | ODiv | OBitAnd | OMin | OSatAdd | OSatSub | OSatMul.

Inductive expr :=
| EVar (x : N)
| EConst (z : Z)
| EBin (op : binop) (t : ty) (a b : expr)   (* operator at Rust type t; +,-,*,/ are the checked ones *)
| ECast (t : ty) (a : expr)                 (* `a as t` (wrapping) *)
| EIsqrt (a : expr).                        (* `.integer_sqrt()` *)

Definition eval_bin (op : binop) (t : ty) (a b : Z) : option Z :=
  match op with
  | OAdd => chk t (a + b)
  | OSub => chk t (a - b)
  | OMul => chk t (a * b)
  | ODiv => if b =? 0 then None else chk t (a / b)     (* emitted for unsigned types only *)
  | OBitAnd => Some (Z.land a b)
  | OMin => Some (Z.min a b)
  | OSatAdd => Some (clamp t (a + b))
  | OSatSub => Some (clamp t (a - b))
  | OSatMul => Some (clamp t (a * b))
  end.

Fixpoint eval (env : N -> Z) (e : expr) : option Z :=
  match e with
  | EVar x => Some (env x)
  | EConst z => Some z
  | EBin op t a b =>
      match eval env a with
      | None => None
      | Some va => match eval env b with None => None | Some vb => eval_bin op t va vb end
      end
  | ECast t a => match eval env a with None => None | Some v => Some (wrap t v) end
  | EIsqrt a => match eval env a with None => None | Some v => Some (Z.sqrt v) end
  end.

Inductive cmpop := KEq | KNe | KLt | KLe | KGt | KGe.
Definition cmp (op : cmpop) (a b : Z) : bool :=
  match op with
  | KEq => a =? b | KNe => negb (a =? b) | KLt => a <? b | KLe => a <=? b
  | KGt => b <? a | KGe => b <=? a
  end.

Definition is_pow2 (z : Z) : bool := (0 <? z) && (Z.land z (z - 1) =? 0).

Inductive cond :=
| CCmp (op : cmpop) (a b : expr)
| CAnd (a b : cond)            (* `&&`, short-circuit *)
| COr (a b : cond)             (* `||`, short-circuit *)
| CNot (a : cond)
| CPow2 (a : expr)             (* `.is_power_of_two()` *)
| CConst (b : bool).

Fixpoint evalc (env : N -> Z) (c : cond) : option bool :=
  match c with
  | CCmp op a b =>
      match eval env a with
      | None => None
      | Some va => match eval env b with None => None | Some vb => Some (cmp op va vb) end
      end
  | CAnd a b => match evalc env a with Some true => evalc env b | r => r end
  | COr a b => match evalc env a with Some false => evalc env b | r => r end
  | CNot a => match evalc env a with Some b => Some (negb b) | None => None end
  | CPow2 a => match eval env a with Some v => Some (is_pow2 v) | None => None end
  | CConst b => Some b
  end.

(* outcome of a validation sequence / of `apply` *)
Inductive outcome := Done | Refused (e : N) | Panic.

(* `if c1 { return Err(e1) } if c2 { return Err(e2) } ...` *)
Fixpoint run_checks (env : N -> Z) (l : list (cond * N)) : outcome :=
  match l with
  | [] => Done
  | (c, e) :: r =>
      match evalc env c with
      | None => Panic
      | Some true => Refused e
      | Some false => run_checks env r
      end
  end.

(* variables of the conditions found in `apply` and `check_rabin_params` *)
Definition V_x : N := 0.        (* the value bound by `if let Some(x) = self.f` *)
Definition V_version : N := 1.  (* config.version *)
Definition V_chunker : N := 2.  (* config.chunker(): 0 = Rabin, 1 = FixedSize *)
Definition V_cs : N := 3.       (* config.chunk_size() / chunk_size *)
Definition V_min : N := 4.      (* config.chunk_min_size() / chunk_min_size *)
Definition V_max : N := 5.      (* config.chunk_max_size() / chunk_max_size *)

(* statement shapes of `ConfigOptions::apply`; f = index of the option field,
   g = index of the config field, e = index of the error site *)
Inductive step :=
| SVersion (f g : N) (lo hi : Z) (e_range e_down : N)
    (* if let Some(v) = self.f { if !(lo..=hi).contains(&v) { Err e_range }
       else if v < config.g { Err e_down }; config.g = v } *)
| SSet (f g : N)
    (* if let Some(x) = self.f { config.g = Some(x) } *)
| SSetConv (f g : N) (t : ty) (e : N)
    (* if let Some(x) = self.f { config.g = Some(x.as_u64().try_into().map_err(e)?) } *)
| SGuardSet (f g : N) (checks : list (cond * N))
    (* if let Some(x) = self.f { if c1 { Err e1 } ...; config.g = Some(x) } *)
| SCheck (pre : cond) (checks : list (cond * N))
    (* if pre { if c1 { Err e1 } ... }   -- no assignment *)
| SAssign (f g : N).
    (* config.g = self.f;   -- unconditional: erases g when the option is not given *)

(* match arms of the limit computations in `decide_repack` *)
Inductive limpat := LUnlimited | LSize | LPercentage.
Record arm := mkarm {
  a_flag : option bool;      (* first tuple component (repack_uncompressed), None = `_` / absent *)
  a_pat : option limpat;     (* None = `_` *)
  a_guard : cond;            (* `if guard` (CConst true when absent) *)
  a_val : expr }.
Definition V_p : N := 0.        (* the bound percentage / size in bytes *)
Definition V_used : N := 1.     (* self.stats.size_sum().used *)
Definition V_unused : N := 2.   (* self.stats.size_sum().unused *)

(* PackSizer fields *)
Definition V_default : N := 0.
Definition V_grow : N := 1.
Definition V_limit : N := 2.
Definition V_current : N := 3.
Definition V_minp : N := 4.
Definition V_maxp : N := 5.
Definition V_size : N := 6.     (* argument of is_too_small / is_too_large *)
Definition V_target : N := 7.   (* let target_size = self.pack_size() *)

(* value classes of configuration / option fields (all values are carried as Z:
   bool = 0/1, Chunker = variant index, opaque = id / polynomial string as a number) *)
Inductive vty := TInt (t : ty) | TBool | TEnum (n : Z) | TOpaque.
Definition val_ok (t : vty) (z : Z) : bool :=
  match t with
  | TInt t => in_ty t z
  | TBool => (z =? 0) || (z =? 1)
  | TEnum n => (0 <=? z) && (z <? n)
  | TOpaque => true
  end.

(* statements of save_config / save_config_hot (commands/config.rs) acting on the local copy
   `new_config` and on the stored `config` files *)
Inductive sstmt :=
| SMarkHot (v : option Z)   (* new_config.is_hot = None / Some(true) *)
| SWriteCold                (* DecryptBackend::new(repo.be, key).save_file_uncompressed(&new_config):
                               repo.be routes config files to the cold part (the only part of a plain repository) *)
| SWriteHot                 (* DecryptBackend::new(hot_be, key).save_file_uncompressed(&new_config) *)
| SCallHot.                 (* save_config_hot(repo, new_config, key): passes a copy *)
