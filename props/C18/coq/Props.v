(* C18 — property theorems.  Nothing but statements closed by `exact`, each followed by
   Print Assumptions.  Model.v mirrors ConfigOptions::apply / apply_config / init, the
   ConfigFile accessors, check_rabin_params, PackSizer and the limit computation of
   decide_repack; the statement list of `apply`, every validation condition, every arithmetic
   expression and all constants are regenerated from the source into Extracted.v on every run. *)
From Verif.Base Require Import Tactics.
From Verif.C18 Require Import ModelBase Extracted Model Proofs Proofs2 Proofs3 History Examples.
Local Open Scope Z_scope.

(* A configuration change alters only the settings it names: a field none of whose options is
   given keeps its value (accepted change). *)
Theorem apply_frame : forall o c c' g,
  apply o c = Some c' ->
  (forall f, In (f, g) (writes apply_steps) -> o f = None) ->
  c' g = c g.
Proof. exact apply_frame_lemma. Qed.
Print Assumptions apply_frame.

(* ... and also in the half-updated `&mut config` a refused `apply` leaves behind. *)
Theorem apply_frame_when_refused : forall o c g,
  (forall f, In (f, g) (writes apply_steps) -> o f = None) ->
  fst (apply_mut o c) g = c g.
Proof. exact apply_mut_frame_lemma. Qed.
Print Assumptions apply_frame_when_refused.

(* Fields no statement targets (id, chunker_polynomial, is_hot) never change. *)
Theorem apply_never_touches_untargeted : forall o c g,
  ~ In g (map snd (writes apply_steps)) -> fst (apply_mut o c) g = c g.
Proof. exact apply_mut_never_touches. Qed.
Print Assumptions apply_never_touches_untargeted.

(* A named setting of an accepted change is stored as given. *)
Theorem apply_sets_named : forall o c c' f g v,
  apply o c = Some c' -> In (f, g) (writes apply_steps) -> o f = Some v -> c' g = Some v.
Proof. exact apply_sets_named_lemma. Qed.
Print Assumptions apply_sets_named.

(* Version downgrades are refused ... *)
Theorem apply_refuses_downgrade : forall o c v cur,
  o O_set_version = Some v -> c C_version = Some cur -> v < cur -> apply o c = None.
Proof. exact apply_refuses_downgrade_lemma. Qed.
Print Assumptions apply_refuses_downgrade.

(* ... and an accepted version is 1 or 2 and not below the current one. *)
Theorem apply_version_allowed : forall o c c' v,
  apply o c = Some c' -> o O_set_version = Some v ->
  1 <= v <= 2 /\ getd c C_version 0 <= v /\ c' C_version = Some v.
Proof. exact apply_version_allowed_lemma. Qed.
Print Assumptions apply_version_allowed.

(* A refused (or no-op) change leaves the stored files and repo.config() as they were. *)
Theorem apply_error_no_change : forall hot o mem st st' mem' r,
  apply_config hot o mem st = (st', mem', r) -> r <> RChanged -> st' = st /\ mem' = mem.
Proof. exact apply_config_refused_lemma. Qed.
Print Assumptions apply_error_no_change.

(* An effective change saves exactly the accepted configuration (through save_config). *)
Theorem apply_config_atomic : forall hot o mem st st' mem',
  apply_config hot o mem st = (st', mem', RChanged) ->
  apply o mem = Some mem' /\ st' = save_config hot mem' st /\ config_eqb mem' mem = false.
Proof. exact apply_config_changed_lemma. Qed.
Print Assumptions apply_config_atomic.

(* Append-only repositories refuse every change that does not switch append-only off. *)
Theorem apply_config_append_only : forall hot o mem st,
  mem C_append_only = Some 1 -> o O_set_append_only <> Some 0 ->
  apply_config hot o mem st = (st, mem, RRefused E_APPEND_ONLY).
Proof. exact apply_config_append_only_lemma. Qed.
Print Assumptions apply_config_append_only.

(* WHAT IS STORED.  save_config, as the source has it now, writes the cold file without the hot
   marker and (hot/cold repositories) the hot copy with it. *)
Theorem save_config_stores_cold_unmarked_hot_marked : forall hot c st,
  (exists sc, st_cold (save_config hot c st) = Some sc /\ forall g, sc g = upd c C_is_hot None g) /\
  (if hot
   then exists sh, st_hot (save_config hot c st) = Some sh /\ forall g, sh g = upd c C_is_hot (Some 1) g
   else st_hot (save_config hot c st) = st_hot st).
Proof. exact save_config_spec. Qed.
Print Assumptions save_config_stores_cold_unmarked_hot_marked.

(* Repository::init (plain and hot/cold): the stored files agree with the config of the
   repository it returns, and open_raw accepts that config. *)
Theorem init_store_ok : forall hot o id poly st mem,
  init_repo hot o id poly = (st, mem, Done) -> store_ok hot mem st /\ open_raw_ok mem hot = true.
Proof. exact init_store_ok_lemma. Qed.
Print Assumptions init_store_ok.

(* apply_config keeps the stored files in agreement with repo.config(). *)
Theorem apply_config_store_ok : forall hot o mem st st' mem' r,
  store_ok hot mem st -> apply_config hot o mem st = (st', mem', r) -> store_ok hot mem' st'.
Proof. exact apply_config_store_ok_lemma. Qed.
Print Assumptions apply_config_store_ok.

(* Frame property for the STORED files (plain: the one config file; hot/cold: cold file and hot
   copy): a field none of whose options is given is stored as before, whatever the result. *)
Theorem stored_frame : forall hot o mem st st' mem' r g,
  store_ok hot mem st -> apply_config hot o mem st = (st', mem', r) ->
  (forall f, In (f, g) (writes apply_steps) -> o f = None) ->
  stored_field (st_cold st') g = stored_field (st_cold st) g /\
  stored_field (st_hot st') g = stored_field (st_hot st) g.
Proof. exact stored_frame_lemma. Qed.
Print Assumptions stored_frame.

(* ... and a named setting of an effective change is what both stored files say. *)
Theorem stored_named : forall hot o mem st st' mem' f g v,
  store_ok hot mem st -> apply_config hot o mem st = (st', mem', RChanged) ->
  In (f, g) (writes apply_steps) -> o f = Some v ->
  stored_field (st_cold st') g = Some v /\ (hot = true -> stored_field (st_hot st') g = Some v).
Proof. exact stored_named_lemma. Qed.
Print Assumptions stored_named.

(* After init and any sequence of configuration changes the repository can be opened in every
   way (both parts; the cold part alone - the only way for a plain repository; open_only_cold):
   open_raw's is_hot check passes and the settings seen are the current ones. *)
Theorem history_reopens : forall hot o id poly l st0 mem0 st mem h,
  init_repo hot o id poly = (st0, mem0, Done) -> apply_configs hot l mem0 st0 = (st, mem) ->
  (how_has_hot h = true -> hot = true) ->
  store_ok hot mem st /\
  exists c, open_config h st = Some c /\ open_raw_ok c (how_has_hot h) = true /\
            forall g, g <> C_is_hot -> c g = mem g.
Proof. exact history_store_ok_lemma. Qed.
Print Assumptions history_reopens.

(* Accepted values are values of the Rust types of the fields they are stored in. *)
Theorem apply_preserves_wf : forall o c c',
  config_wf c = true -> opts_wf o = true -> apply o c = Some c' -> config_wf c' = true.
Proof. exact apply_preserves_wf_lemma. Qed.
Print Assumptions apply_preserves_wf.

(* `apply` never panics; every accepted configuration constructs a chunker that makes
   progress, and PackSizer::pack_size / is_too_small / is_too_large evaluate without
   overflow for every repository size and pack size. *)
Theorem accepted_params_no_panic : forall o c c',
  config_wf c = true -> opts_wf o = true ->
  snd (apply_mut o c) <> Panic /\
  (apply o c = Some c' ->
   config_wf c' = true /\
   chunker_new c' = Done /\ chunker_progress c' = true /\
   forall data cur size, in_ty U64 cur = true -> in_ty U32 size = true ->
     pack_size (sizer_of_config c' data cur) <> None /\
     is_too_small (sizer_of_config c' data cur) size <> None /\
     is_too_large (sizer_of_config c' data cur) size <> None).
Proof. exact accepted_params_no_panic_lemma. Qed.
Print Assumptions accepted_params_no_panic.

(* check_rabin_params itself (also called on stored configurations by ChunkIter::new) never panics. *)
Theorem check_rabin_params_no_panic : forall cs mn mx, check_rabin_params cs mn mx <> Panic.
Proof. exact check_rabin_params_no_panic_lemma. Qed.
Print Assumptions check_rabin_params_no_panic.

(* Every prune limit (any u64 percentage incl. 0, 100, > 100; any size; unlimited) yields a
   value for every repository whose total blob size fits u64. *)
Theorem prune_limits_no_panic : forall flag l used unused,
  limit_wf l = true -> 0 <= used -> 0 <= unused -> used + unused <= ty_max U64 ->
  max_unused_limit flag l used unused <> None /\ max_repack_limit l used unused <> None.
Proof. exact limits_no_panic_lemma. Qed.
Print Assumptions prune_limits_no_panic.

(* PARTIAL (the Rabin iterator belongs to property C06): the two parameter-dependent
   subtractions of ChunkIter::next are safe when chunk_min_size >= BUF_SIZE - 1.
   Accepted Rabin configurations satisfy the premise since the C06 fix (chunk_min_size >= BUF_SIZE). *)
Theorem rabin_next_arith_ok_partial : forall mn leftover len,
  BUF_SIZE - 1 <= mn -> mn <= ty_max U64 -> 0 <= leftover <= BUF_SIZE - 1 -> mn <= len <= ty_max U64 ->
  rabin_next_arith mn leftover len <> None.
Proof. exact rabin_next_arith_ok_lemma. Qed.
Print Assumptions rabin_next_arith_ok_partial.

(* Repaired (fix commit of property C06): the formerly accepted configuration avg 1024 / min 10 /
   max 2048, whose iterator arithmetic underflows, is refused by check_rabin_params. *)
Theorem rabin_small_min_size_refused :
  let o := mk [(O_set_chunk_size, 1024); (O_set_chunk_min_size, 10); (O_set_chunk_max_size, 2048)] in
  opts_wf o = true /\ snd (apply_mut o (new_config 7 9)) <> Done /\
  rabin_next_arith 10 (BUF_SIZE - 1) 10 = None.
Proof. exact rabin_small_min_now_refused. Qed.
Print Assumptions rabin_small_min_size_refused.

(* History: the witnesses that refuted the property on the source before the fix commits
   (statement lists kept in History.v; replayed on the real code before fixing). *)
Theorem frame_refuted_before_fix :
  exists o c c' g,
    run_steps o apply_steps_0 c = (c', Done) /\
    (forall f, In (f, g) (writes apply_steps_0) -> o f = None) /\
    c' g <> c g.
Proof. exact apply_frame_refuted_before_fix. Qed.
Print Assumptions frame_refuted_before_fix.

Theorem no_panic_refuted_before_fix :
  run_checks (rabin_env 0 0 0) rabin_checks_0 = Panic /\
  snd (run_steps (mk [(O_set_chunk_size, 0)]) apply_steps_0 (new_config 7 9)) = Panic /\
  eval_arms max_unused_arms_0 false (Percentage 100) 1000 1000 = None /\
  eval_arms max_unused_arms_0 false (Percentage 150) 1000 1000 = None /\
  eval_arms max_repack_arms_0 false (Percentage 18446744073709551615) 1000 1000 = None.
Proof.
  exact (conj rabin_zero_panics_before_fix (conj init_chunk_size_zero_panics_before_fix
        (conj (proj1 limits_panic_before_fix) (conj (proj1 (proj2 limits_panic_before_fix))
        (proj2 (proj2 (proj2 limits_panic_before_fix))))))).
Qed.
Print Assumptions no_panic_refuted_before_fix.
