(* C18 — property theorems.  Nothing but statements closed by `exact`, each followed by
   Print Assumptions.  Model.v mirrors ConfigOptions::apply / apply_config / init, the
   ConfigFile accessors, check_rabin_params, PackSizer and the limit computation of
   decide_repack; the statement list of `apply`, every validation condition, every arithmetic
   expression and all constants are regenerated from the source into Extracted.v on every run. *)
From Verif.Base Require Import Tactics.
From Verif.C18 Require Import ModelBase Extracted Model Proofs Proofs2 History Examples.
Local Open Scope Z_scope.

(* A configuration change alters only the settings it names: a field none of whose options is
   given keeps its value (accepted change). *)
Theorem apply_frame : forall o c c' g,
  apply o c = Some c' ->
  (forall f, In (f, g) (writes apply_steps) -> o f = None) ->
  c' g = c g.
Proof. exact apply_frame_lemma. Qed.
Print Assumptions apply_frame.

(* ... and also in the half-updated `&mut config` a refused `apply` leaves behind. *)
Theorem apply_frame_when_refused : forall o c g,
  (forall f, In (f, g) (writes apply_steps) -> o f = None) ->
  fst (apply_mut o c) g = c g.
Proof. exact apply_mut_frame_lemma. Qed.
Print Assumptions apply_frame_when_refused.

(* Fields no statement targets (id, chunker_polynomial, is_hot) never change. *)
Theorem apply_never_touches_untargeted : forall o c g,
  ~ In g (map snd (writes apply_steps)) -> fst (apply_mut o c) g = c g.
Proof. exact apply_mut_never_touches. Qed.
Print Assumptions apply_never_touches_untargeted.

(* A named setting of an accepted change is stored as given. *)
Theorem apply_sets_named : forall o c c' f g v,
  apply o c = Some c' -> In (f, g) (writes apply_steps) -> o f = Some v -> c' g = Some v.
Proof. exact apply_sets_named_lemma. Qed.
Print Assumptions apply_sets_named.

(* Version downgrades are refused ... *)
Theorem apply_refuses_downgrade : forall o c v cur,
  o O_set_version = Some v -> c C_version = Some cur -> v < cur -> apply o c = None.
Proof. exact apply_refuses_downgrade_lemma. Qed.
Print Assumptions apply_refuses_downgrade.

(* ... and an accepted version is 1 or 2 and not below the current one. *)
Theorem apply_version_allowed : forall o c c' v,
  apply o c = Some c' -> o O_set_version = Some v ->
  1 <= v <= 2 /\ getd c C_version 0 <= v /\ c' C_version = Some v.
Proof. exact apply_version_allowed_lemma. Qed.
Print Assumptions apply_version_allowed.

(* A refused (or no-op) change writes no configuration file and leaves repo.config() as it was. *)
Theorem apply_error_no_change : forall o s w s' r,
  apply_config o s = (w, s', r) -> r <> RChanged -> w = [] /\ s' = s.
Proof. exact apply_config_refused_lemma. Qed.
Print Assumptions apply_error_no_change.

(* An effective change writes exactly one file: the accepted configuration. *)
Theorem apply_config_atomic : forall o s w s',
  apply_config o s = (w, s', RChanged) ->
  apply o s = Some s' /\ w = [upd s' C_is_hot None] /\ config_eqb s' s = false.
Proof. exact apply_config_changed_lemma. Qed.
Print Assumptions apply_config_atomic.

(* Every file any sequence of changes writes is an accepted configuration. *)
Theorem apply_configs_write_only_accepted : forall l s f,
  In f (fst (apply_configs l s)) ->
  exists o s0 new, apply o s0 = Some new /\ f = upd new C_is_hot None.
Proof. exact apply_configs_writes_accepted. Qed.
Print Assumptions apply_configs_write_only_accepted.

(* Append-only repositories refuse every change that does not switch append-only off. *)
Theorem apply_config_append_only : forall o s,
  s C_append_only = Some 1 -> o O_set_append_only <> Some 0 ->
  apply_config o s = ([], s, RRefused E_APPEND_ONLY).
Proof. exact apply_config_append_only_lemma. Qed.
Print Assumptions apply_config_append_only.

(* Accepted values are values of the Rust types of the fields they are stored in. *)
Theorem apply_preserves_wf : forall o c c',
  config_wf c = true -> opts_wf o = true -> apply o c = Some c' -> config_wf c' = true.
Proof. exact apply_preserves_wf_lemma. Qed.
Print Assumptions apply_preserves_wf.

(* `apply` never panics; every accepted configuration constructs a chunker that makes
   progress, and PackSizer::pack_size / is_too_small / is_too_large evaluate without
   overflow for every repository size and pack size. *)
Theorem accepted_params_no_panic : forall o c c',
  config_wf c = true -> opts_wf o = true ->
  snd (apply_mut o c) <> Panic /\
  (apply o c = Some c' ->
   config_wf c' = true /\
   chunker_new c' = Done /\ chunker_progress c' = true /\
   forall data cur size, in_ty U64 cur = true -> in_ty U32 size = true ->
     pack_size (sizer_of_config c' data cur) <> None /\
     is_too_small (sizer_of_config c' data cur) size <> None /\
     is_too_large (sizer_of_config c' data cur) size <> None).
Proof. exact accepted_params_no_panic_lemma. Qed.
Print Assumptions accepted_params_no_panic.

(* check_rabin_params itself (also called on stored configurations by ChunkIter::new) never panics. *)
Theorem check_rabin_params_no_panic : forall cs mn mx, check_rabin_params cs mn mx <> Panic.
Proof. exact check_rabin_params_no_panic_lemma. Qed.
Print Assumptions check_rabin_params_no_panic.

(* Every prune limit (any u64 percentage incl. 0, 100, > 100; any size; unlimited) yields a
   value for every repository whose total blob size fits u64. *)
Theorem prune_limits_no_panic : forall flag l used unused,
  limit_wf l = true -> 0 <= used -> 0 <= unused -> used + unused <= ty_max U64 ->
  max_unused_limit flag l used unused <> None /\ max_repack_limit l used unused <> None.
Proof. exact limits_no_panic_lemma. Qed.
Print Assumptions prune_limits_no_panic.

(* PARTIAL (the Rabin iterator belongs to property C06): the two parameter-dependent
   subtractions of ChunkIter::next are safe when chunk_min_size >= BUF_SIZE - 1.
   Accepted Rabin configurations satisfy the premise since the C06 fix (chunk_min_size >= BUF_SIZE). *)
Theorem rabin_next_arith_ok_partial : forall mn leftover len,
  BUF_SIZE - 1 <= mn -> mn <= ty_max U64 -> 0 <= leftover <= BUF_SIZE - 1 -> mn <= len <= ty_max U64 ->
  rabin_next_arith mn leftover len <> None.
Proof. exact rabin_next_arith_ok_lemma. Qed.
Print Assumptions rabin_next_arith_ok_partial.

(* Repaired (fix commit of property C06): the formerly accepted configuration avg 1024 / min 10 /
   max 2048, whose iterator arithmetic underflows, is refused by check_rabin_params. *)
Theorem rabin_small_min_size_refused :
  let o := mk [(O_set_chunk_size, 1024); (O_set_chunk_min_size, 10); (O_set_chunk_max_size, 2048)] in
  opts_wf o = true /\ snd (apply_mut o (new_config 7 9)) <> Done /\
  rabin_next_arith 10 (BUF_SIZE - 1) 10 = None.
Proof. exact rabin_small_min_now_refused. Qed.
Print Assumptions rabin_small_min_size_refused.

(* History: the witnesses that refuted the property on the source before the fix commits
   (statement lists kept in History.v; replayed on the real code before fixing). *)
Theorem frame_refuted_before_fix :
  exists o c c' g,
    run_steps o apply_steps_0 c = (c', Done) /\
    (forall f, In (f, g) (writes apply_steps_0) -> o f = None) /\
    c' g <> c g.
Proof. exact apply_frame_refuted_before_fix. Qed.
Print Assumptions frame_refuted_before_fix.

Theorem no_panic_refuted_before_fix :
  run_checks (rabin_env 0 0 0) rabin_checks_0 = Panic /\
  snd (run_steps (mk [(O_set_chunk_size, 0)]) apply_steps_0 (new_config 7 9)) = Panic /\
  eval_arms max_unused_arms_0 false (Percentage 100) 1000 1000 = None /\
  eval_arms max_unused_arms_0 false (Percentage 150) 1000 1000 = None /\
  eval_arms max_repack_arms_0 false (Percentage 18446744073709551615) 1000 1000 = None.
Proof.
  exact (conj rabin_zero_panics_before_fix (conj init_chunk_size_zero_panics_before_fix
        (conj (proj1 limits_panic_before_fix) (conj (proj1 (proj2 limits_panic_before_fix))
        (proj2 (proj2 (proj2 limits_panic_before_fix))))))).
Qed.
Print Assumptions no_panic_refuted_before_fix.
