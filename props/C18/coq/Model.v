(* C18 — executable model of
     ConfigOptions::apply, apply_config, init            (commands/config.rs, init.rs)
     ConfigFile accessors                                 (repofile/configfile.rs)
     check_rabin_params, parameter arithmetic of the chunkers (chunker/rabin.rs, fixed_size.rs)
     PackSizer::from_config / pack_size / is_too_small / is_too_large   (blob/packer.rs)
     the max_unused / max_repack computation of decide_repack          (commands/prune.rs)
   The statement list of `apply`, the validation conditions, the arithmetic expressions
   and all constants come from Extracted.v, i.e. from the current source.
   Definitions only; proofs are in Proofs.v. *)
From Verif.Base Require Import Tactics.
From Verif.C18 Require Import ModelBase Extracted.
Local Open Scope Z_scope.

(* a ConfigFile / a ConfigOptions record: field index -> value (None = Rust `None`) *)
Definition config := N -> option Z.
Definition opts := N -> option Z.
Definition upd (c : config) (g : N) (v : option Z) : config :=
  fun h => if N.eqb h g then v else c h.
Definition getd (c : config) (g : N) (d : Z) : Z := match c g with Some v => v | None => d end.

(* accessors: chunker(), chunk_size(), chunk_min_size(), chunk_max_size() *)
Definition cfg_version (c : config) : Z := getd c C_version 0.
Definition cfg_chunker (c : config) : Z := getd c C_chunker CHUNKER_DEFAULT.
Definition cfg_chunk_size (c : config) : Z := getd c C_chunk_size DEFAULT_CHUNK_SIZE.
Definition cfg_chunk_min_size (c : config) : Z := getd c C_chunk_min_size DEFAULT_CHUNK_MIN_SIZE.
Definition cfg_chunk_max_size (c : config) : Z := getd c C_chunk_max_size DEFAULT_CHUNK_MAX_SIZE.

(* environment of the conditions inside `apply`: x = value bound by `if let Some(x)` *)
Definition cfg_env (c : config) (x : Z) : N -> Z := fun v =>
  if N.eqb v V_x then x
  else if N.eqb v V_version then cfg_version c
  else if N.eqb v V_chunker then cfg_chunker c
  else if N.eqb v V_cs then cfg_chunk_size c
  else if N.eqb v V_min then cfg_chunk_min_size c
  else if N.eqb v V_max then cfg_chunk_max_size c
  else 0.

(* one statement of ConfigOptions::apply on `&mut config` *)
Definition step_apply (o : opts) (s : step) (c : config) : config * outcome :=
  match s with
  | SVersion f g lo hi e1 e2 =>
      match o f with
      | None => (c, Done)
      | Some v =>
          if negb ((lo <=? v) && (v <=? hi)) then (c, Refused e1)
          else if v <? getd c g 0 then (c, Refused e2)
          else (upd c g (Some v), Done)
      end
  | SSet f g =>
      match o f with None => (c, Done) | Some v => (upd c g (Some v), Done) end
  | SSetConv f g t e =>
      match o f with
      | None => (c, Done)
      | Some v => if in_ty t v then (upd c g (Some v), Done) else (c, Refused e)
      end
  | SGuardSet f g checks =>
      match o f with
      | None => (c, Done)
      | Some v =>
          match run_checks (cfg_env c v) checks with
          | Done => (upd c g (Some v), Done)
          | r => (c, r)
          end
      end
  | SCheck pre checks =>
      match evalc (cfg_env c 0) pre with
      | None => (c, Panic)
      | Some false => (c, Done)
      | Some true => (c, run_checks (cfg_env c 0) checks)
      end
  | SAssign f g => (upd c g (o f), Done)
  end.

Fixpoint run_steps (o : opts) (l : list step) (c : config) : config * outcome :=
  match l with
  | [] => (c, Done)
  | s :: r =>
      match step_apply o s c with
      | (c', Done) => run_steps o r c'
      | (c', res) => (c', res)
      end
  end.

(* ConfigOptions::apply(&self, config: &mut ConfigFile): the state of `config` afterwards
   (also after an early `return Err`) and the result *)
Definition apply_mut (o : opts) (c : config) : config * outcome := run_steps o apply_steps c.

(* accepted changes only *)
Definition apply (o : opts) (c : config) : option config :=
  match apply_mut o c with (c', Done) => Some c' | _ => None end.

(* (option field, config field) pairs an `apply` statement can write *)
Definition step_writes (s : step) : list (N * N) :=
  match s with
  | SVersion f g _ _ _ _ | SSet f g | SSetConv f g _ _ | SGuardSet f g _ | SAssign f g => [(f, g)]
  | SCheck _ _ => []
  end.
Definition writes (l : list step) : list (N * N) := flat_map step_writes l.
Definition is_uncond (s : step) : bool := match s with SAssign _ _ => true | _ => false end.

Definition opt_eqb (a b : option Z) : bool :=
  match a, b with Some x, Some y => x =? y | None, None => true | _, _ => false end.
Definition config_eqb (a b : config) : bool := forallb (fun g => opt_eqb (a g) (b g)) cfields.

(* ---------------------------------------------------------------- what is stored *)

(* the `config` files of a repository: cold part (= the only part of a plain repository) and,
   for hot/cold repositories, the copy in the hot part *)
Record store := mkstore { st_cold : option config; st_hot : option config }.
Definition empty_store : store := mkstore None None.

(* body of save_config_hot inside `if let Some(hot_be) = repo.be_hot` *)
Fixpoint run_hot_stmts (l : list sstmt) (c : config) (st : store) : store :=
  match l with
  | [] => st
  | SMarkHot v :: r => run_hot_stmts r (upd c C_is_hot v) st
  | SWriteCold :: r => run_hot_stmts r c (mkstore (Some c) (st_hot st))
  | SWriteHot :: r => run_hot_stmts r c (mkstore (st_cold st) (Some c))
  | SCallHot :: r => run_hot_stmts r c st
  end.
(* body of save_config; hot = repo.be_hot.is_some() *)
Fixpoint run_save (hot : bool) (l : list sstmt) (c : config) (st : store) : store :=
  match l with
  | [] => st
  | SMarkHot v :: r => run_save hot r (upd c C_is_hot v) st
  | SWriteCold :: r => run_save hot r c (mkstore (Some c) (st_hot st))
  | SWriteHot :: r => run_save hot r c (mkstore (st_cold st) (Some c))
  | SCallHot :: r => run_save hot r c (if hot then run_hot_stmts save_config_hot_stmts c st else st)
  end.
Definition save_config (hot : bool) (c : config) (st : store) : store := run_save hot save_config_stmts c st.

(* apply_config (commands/config.rs) on an open repository: mem = repo.config(), st = the stored
   files; returns the stored files, repo.config() afterwards and the result *)
Inductive cfg_result := RChanged | RSame | RRefused (e : N) | RPanic.
Definition apply_config (hot : bool) (o : opts) (mem : config) (st : store) : store * config * cfg_result :=
  if opt_eqb (mem C_append_only) (Some 1) && negb (opt_eqb (o O_set_append_only) (Some 0))
  then (st, mem, RRefused E_APPEND_ONLY)
  else match apply_mut o mem with
       | (new, Done) =>
           if config_eqb new mem then (st, mem, RSame)
           else (save_config hot new st, new, RChanged)
       | (_, Refused e) => (st, mem, RRefused e)
       | (_, Panic) => (st, mem, RPanic)
       end.

(* a sequence of configuration changes against one open repository *)
Fixpoint apply_configs (hot : bool) (l : list opts) (mem : config) (st : store) : store * config :=
  match l with
  | [] => (st, mem)
  | o :: r => let '(st', mem', _) := apply_config hot o mem st in apply_configs hot r mem' st'
  end.

(* init (commands/init.rs): ConfigFile::new(INIT_VERSION, id, poly) then apply *)
Definition new_config (id poly : Z) : config := fun g =>
  if N.eqb g C_version then Some INIT_VERSION
  else if N.eqb g C_id then Some id
  else if N.eqb g C_chunker_polynomial then Some poly
  else None.
Definition init (o : opts) (id poly : Z) : config * outcome := apply_mut o (new_config id poly).

(* Repository::init on a plain (hot = false) or hot/cold repository: the stored files and the
   config of the repository it returns.  The hot marker is put on the local config before `apply`
   and/or after the files are written, as the source says now. *)
Definition mark_hot (b : bool) (c : config) : config := if b then upd c C_is_hot (Some 1) else c.
Definition init_repo (hot : bool) (o : opts) (id poly : Z) : store * config * outcome :=
  match apply_mut o (mark_hot (hot && init_marks_hot_before_apply) (new_config id poly)) with
  | (c, Done) => (save_config hot c empty_store, mark_hot (hot && init_marks_hot_after_write) c, Done)
  | (c, r) => (empty_store, c, r)
  end.

(* the ways a user can open the repository: both parts (`open` with repo_hot), the cold part
   alone (`open` without repo_hot; the only way for a plain repository), `open_only_cold` *)
Inductive how := OpenBoth | OpenColdAlone | OpenOnlyCold.
Definition how_has_hot (h : how) : bool := match h with OpenColdAlone => false | _ => true end.
(* the config `open_may_use_hot` passes to open_raw *)
Definition open_config (h : how) (st : store) : option config :=
  match h with
  | OpenBoth => st_hot st
  | OpenColdAlone => st_cold st
  | OpenOnlyCold => match st_cold st with
                    | Some c => Some (mark_hot open_only_cold_marks_hot c)
                    | None => None
                    end
  end.
(* open_raw refuses when `config.is_hot == Some(true)` and the presence of a hot part disagree *)
Definition open_raw_ok (c : config) (has_hot : bool) : bool := Bool.eqb (opt_eqb (c C_is_hot) (Some 1)) has_hot.

(* ---------------------------------------------------------------- chunker parameters *)

Definition rabin_env (cs mn mx : Z) : N -> Z := fun v =>
  if N.eqb v V_cs then cs else if N.eqb v V_min then mn else if N.eqb v V_max then mx else 0.
Definition check_rabin_params (cs mn mx : Z) : outcome := run_checks (rabin_env cs mn mx) rabin_checks.

(* ChunkIter::from_config: Rabin => check_rabin_params again, then split_mask = chunk_size - 1 (u64);
   FixedSize => no computation *)
Definition chunker_new (c : config) : outcome :=
  if cfg_chunker c =? CHUNKER_RABIN then
    match check_rabin_params (cfg_chunk_size c) (cfg_chunk_min_size c) (cfg_chunk_max_size c) with
    | Done => match chk U64 (cfg_chunk_size c - 1) with Some _ => Done | None => Panic end
    | r => r
    end
  else Done.
(* the fixed-size chunker yields chunks (and so stores the data) only for a positive size *)
Definition chunker_progress (c : config) : bool :=
  if cfg_chunker c =? CHUNKER_FIXED then 0 <? cfg_chunk_size c else true.
(* parameter-dependent arithmetic of the Rabin ChunkIter::next (property C06 owns the loop):
   `min_size -= open_buf_len` with a leftover of at most BUF_SIZE - 1 bytes, and the window
   prefill slice `vec[len - 64 ..]` with len >= min_size *)
Definition rabin_next_arith (mn leftover len : Z) : option (Z * Z) :=
  match chk U64 (mn - leftover), chk U64 (len - 64) with
  | Some a, Some b => Some (a, b)
  | _, _ => None
  end.

(* ---------------------------------------------------------------- PackSizer *)

Record sizer := mksizer { ps_default : Z; ps_grow : Z; ps_limit : Z; ps_current : Z; ps_minp : Z; ps_maxp : Z }.
Definition sizer_env (s : sizer) (size target : Z) : N -> Z := fun v =>
  if N.eqb v V_default then ps_default s
  else if N.eqb v V_grow then ps_grow s
  else if N.eqb v V_limit then ps_limit s
  else if N.eqb v V_current then ps_current s
  else if N.eqb v V_minp then ps_minp s
  else if N.eqb v V_maxp then ps_maxp s
  else if N.eqb v V_size then size
  else if N.eqb v V_target then target
  else 0.
(* PackSizer::from_config = ConfigFile::packsize + packsize_ok_percents; data = true for BlobType::Data *)
Definition sizer_of_config (c : config) (data : bool) (current : Z) : sizer :=
  mksizer
    (if data then getd c C_datapack_size DEFAULT_DATA_SIZE else getd c C_treepack_size DEFAULT_TREE_SIZE)
    (if data then getd c C_datapack_growfactor DEFAULT_GROW_FACTOR else getd c C_treepack_growfactor DEFAULT_GROW_FACTOR)
    (if data then getd c C_datapack_size_limit DEFAULT_SIZE_LIMIT else getd c C_treepack_size_limit DEFAULT_SIZE_LIMIT)
    current
    (getd c C_min_packsize_tolerate_percent DEFAULT_MIN_PERCENTAGE)
    (match c C_max_packsize_tolerate_percent with
     | None => ty_max U32
     | Some p => if p =? 0 then ty_max U32 else p
     end).
Definition pack_size (s : sizer) : option Z :=
  match evalc (sizer_env s 0 0) pack_size_cond with
  | None => None
  | Some b =>
      match eval (sizer_env s 0 0) (if b then pack_size_then else pack_size_else) with
      | None => None
      | Some size => eval (sizer_env s size 0) pack_size_final
      end
  end.
Definition is_too_small (s : sizer) (size : Z) : option bool :=
  match pack_size s with None => None | Some t => evalc (sizer_env s size t) is_too_small_cond end.
Definition is_too_large (s : sizer) (size : Z) : option bool :=
  match pack_size s with None => None | Some t => evalc (sizer_env s size t) is_too_large_cond end.

(* ---------------------------------------------------------------- prune limits *)

Inductive limit := Unlimited | Size (n : Z) | Percentage (p : Z).
Definition lim_val (l : limit) : Z := match l with Unlimited => 0 | Size n => n | Percentage p => p end.
Definition pat_matches (p : option limpat) (l : limit) : bool :=
  match p, l with
  | None, _ => true
  | Some LUnlimited, Unlimited => true
  | Some LSize, Size _ => true
  | Some LPercentage, Percentage _ => true
  | _, _ => false
  end.
Definition flag_matches (p : option bool) (b : bool) : bool :=
  match p with None => true | Some x => Bool.eqb x b end.
Definition lim_env (l : limit) (used unused : Z) : N -> Z := fun v =>
  if N.eqb v V_p then lim_val l else if N.eqb v V_used then used else if N.eqb v V_unused then unused else 0.
(* a Rust `match` with guards: first arm whose pattern matches and whose guard holds;
   None = panic while evaluating (an exhaustive match always finds an arm) *)
Fixpoint eval_arms (arms : list arm) (flag : bool) (l : limit) (used unused : Z) : option Z :=
  match arms with
  | [] => None
  | a :: r =>
      if flag_matches (a_flag a) flag && pat_matches (a_pat a) l then
        match evalc (lim_env l used unused) (a_guard a) with
        | None => None
        | Some true => eval (lim_env l used unused) (a_val a)
        | Some false => eval_arms r flag l used unused
        end
      else eval_arms r flag l used unused
  end.
(* flag = repack_uncompressed || repack_all *)
Definition max_unused_limit (flag : bool) (l : limit) (used unused : Z) : option Z :=
  eval_arms max_unused_arms flag l used unused.
Definition max_repack_limit (l : limit) (used unused : Z) : option Z :=
  eval_arms max_repack_arms false l used unused.

(* ---------------------------------------------------------------- well-formed values *)

Definition field_ok (ty_of : N -> vty) (r : N -> option Z) (f : N) : bool :=
  match r f with None => true | Some v => val_ok (ty_of f) v end.
(* every stored value is a value of its Rust type; non-Option fields are present *)
Definition config_wf (c : config) : bool :=
  forallb (field_ok cfield_ty c) cfields && forallb (fun g => match c g with Some _ => true | None => false end) cfields_required.
Definition opts_wf (o : opts) : bool := forallb (field_ok ofield_ty o) ofields.
Definition limit_wf (l : limit) : bool := in_ty U64 (lim_val l).
