"""C07 — identical content is stored once; unchanged data adds nothing.

Stages: facts from the source (the two archiver gates; typedness of the in-run indexer via C13's
extractor); Coq theorems about the archiver over a typed index composed with C13's packer
transition system, and edit locality over an abstract content-defined chunker; real backups of
seeded source trees under EDIT SCRIPTS (prepend/insert/delete/overwrite/append at arbitrary
offsets of many-chunk files, duplicate, move, remove, new files, content colliding with tree
serialisations), every backup through a fresh Repository handle (index reloaded).  After each
backup the property itself is evaluated on the observations (oracle) and the observations are
replayed through the extracted model (correspondence)."""
import os, sys, json
import vlib
from vlib import sh2, log

OPN = {0: "nop", 1: "insert", 2: "delete", 3: "overwrite", 4: "prepend", 5: "append", 6: "duplicate",
       7: "move", 8: "remove", 9: "newfile", 10: "file={\"nodes\":[]}\\n", 11: "emptydir",
       12: "file=tree-blob-bytes", 13: "filler", 14: "duplicate-latest"}
MAXCHUNK = 65536


def run_lines(exe, lines, tag, timeout=1500):
    path = os.path.join(vlib.BUILD, "C07", "in_%s_%d.txt" % (tag, os.getpid()))
    open(path, "w").write("\n".join(lines) + "\n")
    rc, out, err = sh2([exe, path], timeout=timeout)
    os.remove(path)
    res = out.splitlines()
    if rc != 0 or len(res) != len(lines):
        raise RuntimeError("%s failed rc=%s (%d of %d lines)\n%s" % (exe, rc, len(res), len(lines), err[-2000:]))
    return res


# ------------------------------------------------------------------ case generation
def gen_edit(rng, nfiles):
    op = rng.choice([1, 1, 1, 2, 2, 3, 3, 4, 5, 6, 7, 8, 9])
    ln = rng.choice([1, 2, 17, 100, 1000, 4096, 5000, 30000, 70000, 200000])
    return (op, rng.randrange(0, 64), rng.randrange(0, 2 ** 31), ln, rng.randrange(1, 2 ** 40))


def gen_case(rng, kind, thorough):
    seed = rng.randrange(1, 2 ** 40)
    steps = []
    if kind == "collision":
        # the regression of the repaired defect: `{"nodes":[]}\n` next to an empty directory, one data
        # blob per pack, ~50 filler files in between; plus the cross-run variants
        nfiles, maxfile = rng.choice([0, 1, 3]), 20000
        dp, tp = 1, rng.choice([1, 4000000])
        v = rng.randrange(4)
        fill = (13, 0, 0, rng.choice([30, 50, 80]), rng.randrange(1, 2 ** 40))
        d0 = rng.randrange(5)
        if v == 0:
            steps = [([(10, d0, 0, 0, 0), (11, d0, 0, 0, 0), fill], 1)]
        elif v == 1:
            steps = [([(10, d0, 0, 0, 0), fill], 1), ([(11, rng.randrange(5), 0, 0, 0)], 1)]
        elif v == 2:
            steps = [([(11, d0, 0, 0, 0), fill], 1), ([(10, rng.randrange(5), 0, 0, 0)], rng.randrange(2))]
        else:
            steps = [([fill], 1), ([(12, rng.randrange(5), rng.randrange(64), 0, 0), (12, rng.randrange(5), rng.randrange(64), 0, 0)], 1),
                     ([(10, d0, 0, 0, 0), (11, d0, 0, 0, 0)], rng.randrange(2))]
        steps.append(([], 1))
    else:
        nfiles = rng.choice([1, 2, 3, 5, 8])
        maxfile = rng.choice([40000, 200000, 600000, 1500000] if thorough else [40000, 200000, 600000, 1000000])
        dp = rng.choice([1, 3000, 50000, 4000000])
        tp = rng.choice([1, 2000, 4000000])
        nsteps = rng.randrange(2, 6)
        for _ in range(nsteps):
            r = rng.random()
            if r < 0.15:
                ops = []
            elif r < 0.3:
                ops = [(rng.choice([6, 7]), rng.randrange(64), rng.randrange(5), 0, 0) for _ in range(rng.randrange(1, 3))]
            elif r < 0.4:
                ops = [gen_edit(rng, nfiles), (rng.choice([10, 11, 12]), rng.randrange(5), rng.randrange(64), 0, 0)]
            elif r < 0.5:
                # identical new content twice (or three times) inside one backup
                ops = [(9, rng.randrange(5), rng.randrange(3), rng.choice([100, 30000, 200000]), rng.randrange(1, 2 ** 40))]
                ops += [(14, 0, rng.randrange(5), 0, 0) for _ in range(rng.randrange(1, 3))]
            else:
                ops = [gen_edit(rng, nfiles) for _ in range(rng.randrange(1, 4))]
            steps.append((ops, 1 if rng.random() < 0.7 else 0))
        steps.append(([], rng.randrange(2)))
    toks = [seed, nfiles, maxfile, dp, tp, len(steps)]
    for ops, force in steps:
        toks.append(len(ops))
        for o in ops:
            toks += list(o)
        toks.append(force)
    return " ".join(map(str, toks)), steps


# ------------------------------------------------------------------ parsing the observations
def parse_backup(seg):
    tk = seg.split()
    d = {"label": tk[0]}
    i = 1
    while "=" in tk[i]:
        k, v = tk[i].split("=", 1); d[k] = int(v); i += 1
    assert tk[i] == "G"; n = int(tk[i + 1]); i += 2
    G = set()
    for _ in range(n):
        G.add((int(tk[i]), int(tk[i + 1]))); i += 2
    assert tk[i] == "I"; i += 1
    items = []
    while tk[i] in ("N", "E", "O"):
        if tk[i] == "N":
            items.append(("N", tk[i + 1], int(tk[i + 2]))); i += 3
        elif tk[i] == "E":
            items.append(("E", int(tk[i + 1]))); i += 2
        else:
            k = int(tk[i + 3])
            ch = [(int(tk[i + 4 + 2 * j]), int(tk[i + 5 + 2 * j])) for j in range(k)]
            items.append(("O", tk[i + 1], int(tk[i + 2]), ch)); i += 4 + 2 * k
    packs = []
    while tk[i] == "P":
        t, reused, n = int(tk[i + 1]), int(tk[i + 2]), int(tk[i + 3])
        packs.append((t, reused, [int(x) for x in tk[i + 4:i + 4 + n]])); i += 4 + n
    edits = []
    while tk[i] == "X":
        e = {"op": int(tk[i + 1]), "name": tk[i + 2], "off": int(tk[i + 3]), "rem": int(tk[i + 4]),
             "ins": int(tk[i + 5]), "oldlen": int(tk[i + 6])}
        i += 7
        if e["op"] in (6, 7, 14):
            e["name2"] = tk[i]; i += 1
        edits.append(e)
    assert tk[i] == "Z"
    for x in tk[i + 1:]:
        k, v = x.split("=", 1); d[k] = int(v)
    d.update({"G": G, "items": items, "packs": packs, "edits": edits})
    return d


def cuts(ch):
    c, p = [0], 0
    for _, l in ch:
        p += l; c.append(p)
    return c


def locality(old, new, e):
    """The prediction of `edit_locality` for one edit of one file: chunks of the old file that end at or
    before the edit (by a cut that is not the end of the file) are kept; from the first cut behind the
    edit that both files have, the chunk lists coincide.  Returns (violation or None, stats)."""
    ca, cb = cuts(old), cuts(new)
    off, rem, ins = e["off"], e["rem"], e["ins"]
    oldlen, newlen = ca[-1], cb[-1]
    if oldlen != e["oldlen"] or newlen != oldlen - rem + ins:
        return "file length in the snapshot differs from the edited file", None
    delta = ins - rem
    npre = len([q for q in ca[1:] if q <= off and q < oldlen])
    if new[:npre] != old[:npre]:
        return "a chunk that ends before the edit changed", None
    # first common cut behind the edit
    sb = set(cb)
    k = None
    for j, q in enumerate(ca):
        if q >= off + rem and (q + delta) in sb and q + delta >= off + ins:
            k = j; break
    assert k is not None     # the end of the file is a common cut
    jb = cb.index(ca[k] + delta)
    if old[k:] != new[jb:]:
        return "chunk lists differ behind a cut common to the old and the new file", None
    mid_new = new[npre:jb]
    # chunks of the new file between the end of the edit and the common cut (resync window)
    resync = len([1 for x in range(npre, jb) if cb[x] >= off + ins])
    forced = any(l >= MAXCHUNK for _, l in mid_new)
    overlap = len([1 for x in range(npre, jb) if cb[x] < off + ins])
    return None, {"pre": npre, "mid_new": len(mid_new), "suffix": len(new) - jb, "resync": resync,
                  "forced": forced, "overlap": overlap, "mid_ids": set(i for i, _ in mid_new)}


def run(ctx):
    rng, cov = ctx.rng, ctx.coverage
    meta13, err13 = vlib.regen_extracted("C13")
    meta06, err06 = vlib.regen_extracted("C06")     # the Rabin / fixed-size chunker models the edit-locality theorems are instantiated with
    meta11, err11 = vlib.regen_extracted("C11")     # the parent matcher (unchanged-tree short-cut guard)
    meta, err = vlib.regen_extracted("C07")
    r = vlib.proof_stage(ctx)
    for e in (err, err13, err06, err11):
        if e:
            r["ok"] = False; r["failures"].append("fact extraction failed: " + e)
    cov["trusted_base"] += ["props/C07/extract.py (shape of the two upload gates in file_archiver.rs / tree_archiver.rs)",
                            "props/C13/extract.py (element type of Indexer.indexed, writer queue length)"]
    cov["trusted_base"] += ["props/C06/extract.py (chunker constants, check_rabin_params)", "props/C11/extract.py (is_parent clauses, short-cut guard of backup_tree)"]
    cov["source_facts"] = {"C07": meta, "C13": meta13, "C06": meta06, "C11": meta11}
    ctx.assumptions += [
        "ids are abstract: equal id = equal plaintext (SHA-256 collision-free on the values that occur); `tid` (tree serialisation + hash) is an arbitrary function of the node list, universally quantified; the driver checks on the observed ids that it IS a function of (names, metadata digest, content/subtree ids) and injective",
        "the source is the item stream after chunking and hashing; the chunker is abstract in edit_locality: hypotheses chunker_partition (lossless, non-empty chunks) and resync_after_common_cut (cut points depend only on the bytes since the previous cut) are universally quantified and shown satisfiable by a delimiter chunker; that the Rabin chunker meets them is C06's subject and is only OBSERVED here (oracle c)",
        "the packer pipeline is C13's transition system (any in-flight item may advance at any time, any flush point, writer split into write and index): a superset of the real schedules; real thread interleavings are not modelled beyond that (PARTIAL)",
        "the reloaded index = loaded index + packs held by the run's indexer (Indexer::finalize writes them; index-file (de)serialisation and GlobalIndex lookup are C17's subject)",
        "parent-based reuse of unchanged files (C11) is exercised in ~30% of the backups but not modelled: a matched file contributes its parent's chunk list to the item stream",
        "backend writes succeed (faults are C03)"]
    try:
        model = vlib.build_model("C07")
    except RuntimeError as e:
        model = None
        if r["ok"]:
            r["ok"] = False; r["failures"].append("extracted model no longer builds: " + str(e)[-400:])
    impl = vlib.build_harness("c07")
    ngen, ncol = (300, 60) if ctx.thorough() else (90, 20)
    if not r["ok"]:
        ngen, ncol = ngen * 2, ncol * 2
    cases = []
    corpus = os.path.join(ctx.pdir, "corpus.txt")
    if os.path.exists(corpus):
        for ln in open(corpus):
            ln = ln.split("#")[0].strip()
            if ln:
                cases.append((ln, "corpus"))
    for _ in range(ncol):
        cases.append((gen_case(rng, "collision", ctx.thorough())[0], "collision"))
    for _ in range(ngen):
        cases.append((gen_case(rng, "edits", ctx.thorough())[0], "edits"))
    # the search for the writer-order obligation (index entry before pack upload): only when the proof
    # stage is broken or the source fact says so, and once in the thorough tier as a regression
    wbi = (meta or {}).get("pack_written_before_indexed", "")
    if (not r["ok"]) or ctx.thorough() or not str(wbi).startswith("process: write_bytes"):
        for fp in ([5] if r["ok"] else [5, 4, 6]):
            cases.append(("fault %d %d" % (rng.randrange(1, 2 ** 40), fp), "fault"))
    # directed scenario: a healing run with skip_if_unchanged (the first index file lost, the parent's root
    # tree still loadable) re-stores chunks although its tree equals the parent's; the backup after it
    # (index reloaded) must add nothing.  One case always, three when an obligation is broken.
    for _ in range(1 if r["ok"] else 3):
        cases.append(("heal %d" % rng.randrange(1, 2 ** 40), "heal"))
    outs = []
    B = 6
    for i in range(0, len(cases), B):
        outs += run_lines(impl, [c for c, _ in cases[i:i + B]], "impl")
    # documented load flakiness of the library's `check` ("index still in use" after a 100 ms wait for
    # worker threads, index.rs): rerun such a case singly, up to three times; any other panic is reported
    flaky = 0
    for i, o in enumerate(outs):
        tries = 0
        while o.startswith("panic") and "index still in use" in o and tries < 3:
            tries += 1; flaky += 1
            o = run_lines(impl, [cases[i][0]], "impl")[0]
        outs[i] = o
    hist = {"backups": 0, "packs_written": 0, "blobs_stored": 0, "rebackups_unchanged": 0, "ops": {},
            "in_run_duplicates": 0, "cross_type_ids": 0, "locality_checked": 0, "resync_chunks": {},
            "parent_based_backups": 0, "dedup_partial_backups": 0, "summary_mismatch": 0,
            "reruns_for_index_still_in_use": flaky}
    viol, mlines, mref, samples, reload_mismatch = [], [], [], [], []
    nontriv = set()

    def bad(what, case, k, detail):
        viol.append((what, case, k, detail))

    for (case, kind), out in zip(cases, outs):
        if not out.startswith("ok"):
            bad("a backup of the edit script did not complete: " + out[:200], case, -1, out[:400]); continue
        segs = [s.strip() for s in out.split("|")][1:]
        if segs and segs[0].startswith("HEAL"):
            h = dict((a, int(b)) for a, b in (x.split("=") for x in segs[0].split()[1:]))
            hist["heal_scenarios"] = hist.get("heal_scenarios", 0) + 1
            hist["heal_restored_data_blobs"] = hist.get("heal_restored_data_blobs", 0) + h["heal_data_blobs"]
            if h["tree3_eq_tree2"] != 1 or h["tree4_eq_tree2"] != 1:
                bad("re-backup of unchanged data produced a different tree id", case, 3, str(h))
            if h["last_data_blobs"] != 0 or h["last_tree_blobs"] != 0 or h["last_data_added"] != 0 or h["packs_after_4"] != h["packs_after_3"]:
                bad("re-backup of unchanged data added data (blobs the previous run had stored were stored again once the index was reloaded)", case, 3, str(h))
            if h["unindexed_after_3_not_lost"] != 0:
                bad("a pack written by a backup run is in no index file", case, 2, str(h))
            # (`clean` is not part of the oracle here: snapshot 1's trees were described by the removed index file)
            continue
        fault = None
        if segs and segs[0].startswith("FAULT"):
            fault = dict(x.split("=") for x in segs[0].split()[1:])
            segs = segs[1:]
            hist["fault_scenarios"] = hist.get("fault_scenarios", 0) + 1
            if fault["failed"] != "1" or fault["snapshots"] != "0":
                bad("a backup whose pack upload failed reported success or left a snapshot", case, -1, str(fault))
        end = segs[-1]
        bks = [parse_backup(s) for s in segs[:-1]]
        if "clean=1" not in end:
            bad("check (with pack data) reports an error after the script", case, len(bks) - 1, end)
        mlines.append("reset"); mref.append(None)
        names = {}
        prev = None
        for k, b in enumerate(bks):
            hist["backups"] += 1
            hist["parent_based_backups"] += 1 - b["force"]
            G = b["G"]
            ALL, files = [], {}
            for it in b["items"]:
                if it[0] == "O":
                    ALL += [(0, c) for c, _ in it[3]]
                    files[it[1]] = it[3]
                elif it[0] == "E":
                    ALL.append((1, it[1]))
            ALL.append((1, b["tree"]))
            occ = {}
            for x in ALL:
                occ[x] = occ.get(x, 0) + 1
            NEW = set(ALL) - G
            STORED = {}
            for t, reused, ids in b["packs"]:
                hist["packs_written"] += 1
                if t not in (0, 1):
                    bad("a pack written by the backup is not in the index", case, k, "")
                    continue
                if len(set(ids)) != len(ids):
                    bad("a pack holds the same blob twice", case, k, str(ids[:20]))
                for i in ids:
                    STORED[(t, i)] = STORED.get((t, i), 0) + 1
            hist["blobs_stored"] += sum(STORED.values())
            both = set(i for t, i in set(ALL) | G if t == 0) & set(i for t, i in set(ALL) | G if t == 1)
            hist["cross_type_ids"] += len(both & set(i for _, i in NEW))
            for op in b["edits"]:
                hist["ops"][OPN[op["op"]]] = hist["ops"].get(OPN[op["op"]], 0) + 1
            # (b) every new blob is uploaded, none that existed is uploaded again
            again = sorted(x for x in STORED if x in G)
            if again:
                bad("a blob the loaded index already had (same type, same id) was uploaded again", case, k, str(again[:10]))
            alien = sorted(x for x in STORED if x not in G and x not in occ)
            if alien:
                bad("a blob that the new snapshot does not reference was uploaded", case, k, str(alien[:10]))
            missing = sorted(x for x in NEW if x not in STORED)
            if missing:
                bad("a blob of the new state that did not exist before (no index entry backed by a pack file) was NOT uploaded", case, k, str(missing[:10]))
            for x, n in STORED.items():
                if n > 1:
                    hist["in_run_duplicates"] += n - 1
                if x in occ and n > occ[x]:
                    bad("a blob was stored more often than it occurs in the new data (outside the in-run window)", case, k, "%s stored %d times, occurs %d times" % (x, n, occ[x]))
            if b.get("dangling", 0) != 0:
                bad("the index lists blobs of a pack file that is not in the repository (an index entry reached the repository before its pack)", case, k, "%d blobs" % b["dangling"])
            if b["removes"] != 0:
                bad("a backup removed files from the repository", case, k, str(b["removes"]))
            if (b["index_writes"] == 0) != (len(b["packs"]) == 0):
                bad("index files written without packs, or packs without an index file", case, k, "index files %d packs %d" % (b["index_writes"], len(b["packs"])))
            if b["unindexed_refs"] != 0:
                bad("a blob referenced by the new snapshot is not found in the reloaded index under its type", case, k, str(b["unindexed_refs"]))
            if b["packs_after"] - b["packs_before"] != len(b["packs"]) or b["written"] != len(b["packs"]):
                bad("pack listing and recorded pack writes disagree", case, k, "before %d after %d written %d" % (b["packs_before"], b["packs_after"], b["written"]))
            nd, nt = sum(n for (t, _), n in STORED.items() if t == 0), sum(n for (t, _), n in STORED.items() if t == 1)
            if (b["data_blobs"], b["tree_blobs"]) != (nd, nt):
                hist["summary_mismatch"] += 1
            # the index the NEXT fresh handle loads = loaded index + the packs of this run (model: `reload`)
            if prev is not None and prev.get("expect_next_G") is not None and G != prev["expect_next_G"]:
                lost = sorted(prev["expect_next_G"] - G)[:10]; extra = sorted(G - prev["expect_next_G"])[:10]
                if lost:
                    bad("index entries present after the previous backup are gone at the next open", case, k, str(lost))
                else:
                    reload_mismatch.append((case, k, str(extra)))
            b["expect_next_G"] = G | set(STORED)
            # (a) unchanged data adds nothing, same tree id
            if prev is not None and not b["edits"]:
                hist["rebackups_unchanged"] += 1
                if b["packs"] or b["data_added"] != 0 or b["data_blobs"] != 0 or b["tree_blobs"] != 0 or b["index_writes"] != 0:
                    bad("re-backup of unchanged data added data", case, k, "packs %d data_added %d data_blobs %d tree_blobs %d index files %d" % (len(b["packs"]), b["data_added"], b["data_blobs"], b["tree_blobs"], b["index_writes"]))
                if b["tree"] != prev["tree"]:
                    bad("re-backup of unchanged data produced a different tree id", case, k, "")
            # (d) duplicate / move / remove only: content is referenced, not stored again
            if prev is not None and b["edits"] and all(e["op"] in (6, 7, 8) for e in b["edits"]) and nd != 0:
                bad("duplicating/moving/removing files stored data blobs again", case, k, str(nd))
            # (c) edit locality
            if prev is not None:
                per_file = {}
                for e in b["edits"]:
                    per_file.setdefault(e["name"], []).append(e)
                for name, es in per_file.items():
                    if len(es) != 1 or es[0]["op"] not in (1, 2, 3, 4, 5):
                        continue
                    if name not in prev["files"] or name not in files:
                        continue
                    if any(e2["op"] in (7, 8) and e2["name"] == name for e2 in b["edits"]):
                        continue
                    v, st = locality(prev["files"][name], files[name], es[0])
                    if v:
                        bad("edit locality: " + v, case, k, json.dumps(es[0])); continue
                    hist["locality_checked"] += 1
                    key = str(min(st["resync"], 20))
                    hist["resync_chunks"][key] = hist["resync_chunks"].get(key, 0) + 1
                    up = set(i for (t, i) in STORED if t == 0) & set(i for i, _ in files[name])
                    # uploaded chunks of this file lie between the two cuts (ids occurring elsewhere excepted)
                    other = set(i for n2, ch in files.items() if n2 != name for i, _ in ch)
                    if not (up - other) <= st["mid_ids"]:
                        bad("edit locality: a chunk outside the disturbed range was uploaded", case, k, json.dumps(es[0]))
                    # random content only (first letter of the name = content kind): periodic or constant
                    # data legitimately never resynchronises when the shift is not a multiple of its cut pattern
                    if name.startswith("r") and st["resync"] > 40 and not st["forced"]:
                        bad("edit locality: the chunker did not resynchronise within 40 chunks behind the edit", case, k, json.dumps(es[0]))
                    if len(samples) < 3 and st["pre"] > 0 and st["suffix"] > 0:
                        samples.append({"case": case, "backup": k, "edit": {**es[0], "op": OPN[es[0]["op"]]},
                                        "old_chunks": len(prev["files"][name]), "new_chunks": len(files[name]),
                                        "kept_prefix": st["pre"], "kept_suffix": st["suffix"], "rechunked": st["mid_new"]})
            if G and STORED and (set(ALL) & G):
                hist["dedup_partial_backups"] += 1
                nontriv.add((case, k))
            # model line
            def nm(s):
                return names.setdefault(s, len(names) + 1)
            ml = ["g", str(len(G))] + ["%d %d" % x for x in sorted(G)] + ["items", str(len(b["items"]))]
            for it in b["items"]:
                if it[0] == "N":
                    ml += ["N", str(nm(it[1])), str(it[2])]
                elif it[0] == "E":
                    ml += ["E", str(it[1])]
                else:
                    ml += ["O", str(nm(it[1])), str(it[2]), str(len(it[3]))] + [str(c) for c, _ in it[3]]
            ml += ["root", str(b["tree"]), "packs", str(len([p for p in b["packs"] if p[0] in (0, 1)]))]
            for t, _, ids in b["packs"]:
                if t in (0, 1):
                    ml += [str(t), str(len(ids))] + [str(i) for i in ids]
            if len(ALL) <= 20000:      # the list-based extracted model is quadratic; the fault scenario has 65536 blobs
                mlines.append(" ".join(ml)); mref.append((case, k, NEW, STORED))
            b["files"] = files
            prev = b
    # ---- correspondence: the observations are runs of the extracted model
    mism = []
    if model:
        mo = run_lines(model, mlines, "model")
        for ref, o in zip(mref, mo):
            if ref is None:
                continue
            case, k, NEW, STORED = ref
            want = "admitted final=true idx_match=true"
            sent = o.split("sent=[", 1)[1].rstrip("]") if "sent=[" in o else ""
            sset = set((0 if x[0] == "d" else 1, int(x[1:])) for x in sent.split(",") if x)
            if not o.startswith(want) or "tidfun=true" not in o or "tidinj=true" not in o or sset != NEW:
                mism.append((case, k, o[:300]))
    cov.update({"evaluations": hist["backups"], "distinct_nontrivial": len(nontriv),
                "rule": "case = seeded source tree (0..8 files up to 1.5 MB, rabin avg 8 KiB / min 4 KiB / max 64 KiB, data packs from one blob per pack to 4 MB) + an edit script of 2..6 steps, each step 0..3 ops then a backup through a fresh Repository handle (70% forced full read, 30% with parent); evaluation = one backup; non-trivial = a backup that stored new blobs while other blobs of the new state were already in the loaded index",
                "samples": samples, "distribution": hist, "cases": len(cases),
                "traces_validated_against_impl": len([x for x in mref if x is not None]),
                "disagreements_checked": len(mism) + len(viol), "model_impl_mismatches": len(mism) + len(reload_mismatch), "oracle_violations": len(viol)})
    tag = os.path.basename(os.path.dirname(impl))
    for what, case, k, detail in viol[:20]:
        ctx.violation(what, {"case_line": case, "backup_index": k, "detail": detail,
                             "how_to_read": "seed nfiles maxfile datapack treepack nsteps {nops {op a b c d}* force}*; ops: " + json.dumps(OPN),
                             "how_to_replay": "echo '<case_line>' | %s -" % impl})
    if mism and not viol:
        ctx.violation("correspondence broken: an observed backup is not a run of the extracted model (%d backups)" % len(mism),
                      {"first": {"case_line": mism[0][0], "backup_index": mism[0][1], "model": mism[0][2]}}, no_input=True)
    if reload_mismatch and not viol and not mism:
        ctx.violation("correspondence broken: the index loaded by the next handle is not `reload` of the model (%d backups)" % len(reload_mismatch),
                      {"first": {"case_line": reload_mismatch[0][0], "backup_index": reload_mismatch[0][1], "extra": reload_mismatch[0][2]}}, no_input=True)
    if hist["summary_mismatch"] and not viol and not mism:
        ctx.violation("correspondence broken: SnapshotSummary.data_blobs/tree_blobs differ from the blobs in the written packs (%d backups)" % hist["summary_mismatch"],
                      {}, no_input=True)
    vlib.finish_broken_obligations(ctx)
