(* prelude: n nat *)
(* C07 driver.  One line = one real backup as observed by the harness:
     reset                                   -- new case: forget the tree-id table
     g <n> {<t> <id>}*  items <m> {N <name> <meta> | E <tid> | O <name> <meta> <k> <id>*}*  root <tid>
       packs <np> {<t> <n> <id>*}*
   (t: 0 data, 1 tree; ids dense numbers, equal numbers = equal 256-bit ids, across types too).
   The extracted `archive` is run on the item stream against the loaded index g.  `tid` (hash of
   a tree's serialisation) is instantiated by the OBSERVED tree ids, through a table keyed by the
   entry list that persists over the backups of one case: the driver reports when the observation
   is not a function of the entry list (tidfun=false: the model predicts the same tree id for the
   same entries, e.g. on a re-backup) or not injective (tidinj=false).
   Then the packs the real run wrote are replayed through the extracted C13 transition system with
   the model's own requests as Send events: copies that were written are advanced past all filters
   first (the in-run duplicate window), every pack is added/flushed/written/indexed in write order,
   the remaining requests are drained (they must be dropped by the indexer filter).  Printed:
   whether the schedule is admitted, final, whether the model's index equals the observed packs,
   and the model's requests. *)
let bt_of = function 0 -> Data | _ -> Tree
let bt_s = function Data -> "d" | Tree -> "t"
let show_bl l = String.concat "," (List.map (fun (t, i) -> bt_s t ^ string_of_int (int_of_n i)) l)

let tbl : (entry list, int) Hashtbl.t = Hashtbl.create 1024
let rev_tbl : (int, entry list) Hashtbl.t = Hashtbl.create 1024

exception Reject of string

let find_pos p l = let rec go k = function [] -> None | x :: r -> if p x then Some k else go (k + 1) r in go 0 l

let step_or s e what = match step s e with Some s' -> s' | None -> raise (Reject what)

let case line =
  let t = toks line in
  let first = next t in
  if first = "reset" then (Hashtbl.reset tbl; Hashtbl.reset rev_tbl; "reset") else begin
    let ng = ni t in
    let g = ntimes ng (fun () -> let ty = bt_of (ni t) in let i = n_of_int (ni t) in (ty, i)) in
    let _ = next t in
    let m = ni t in
    let observed = ref [] in
    let items = ntimes m (fun () ->
        match next t with
        | "N" -> let nm = n_of_int (ni t) in let me = n_of_int (ni t) in NewTree (nm, me)
        | "E" -> observed := ni t :: !observed; EndTree
        | "O" -> let nm = n_of_int (ni t) in let me = n_of_int (ni t) in let k = ni t in
                 Other (nm, me, ntimes k (fun () -> n_of_int (ni t)))
        | x -> failwith ("bad item " ^ x)) in
    let _ = next t in
    let root = ni t in
    let obs = ref (List.rev !observed @ [root]) in
    let tidfun = ref true and tidinj = ref true in
    let tid (es : entry list) : n =
      let o = match !obs with x :: r -> obs := r; x | [] -> failwith "more trees than observed" in
      (match Hashtbl.find_opt tbl es with
       | Some i -> if i <> o then tidfun := false
       | None -> Hashtbl.replace tbl es o);
      (match Hashtbl.find_opt rev_tbl o with
       | Some es' -> if es' <> es then tidinj := false
       | None -> Hashtbl.replace rev_tbl o es);
      n_of_int o in
    let _ = next t in
    let np = ni t in
    let packs = ntimes np (fun () -> let ty = bt_of (ni t) in let n = ni t in (ty, ntimes n (fun () -> n_of_int (ni t)))) in
    match archive tid g items with
    | None -> "archive-error"
    | Some r ->
      let sent = r.r_sent in
      let verdict =
        try
          let s = ref (match run init (List.map (fun (ty, i) -> Send (ty, i)) sent) with Some s -> s | None -> raise (Reject "send")) in
          (* copies per (type, id) in the observed packs *)
          let copies_tbl = Hashtbl.create 64 in
          List.iter (fun (ty, ids) -> List.iter (fun i ->
              let k = (ty, i) in Hashtbl.replace copies_tbl k (1 + try Hashtbl.find copies_tbl k with Not_found -> 0)) ids) packs;
          (* advance that many requests of each blob past all filters before anything is indexed *)
          Hashtbl.iter (fun (ty, i) k ->
              for _ = 1 to k do
                match find_pos (fun (j, stg) -> j = i && int_of_nat stg = 0) (get !s ty).inflight with
                | None -> raise (Reject ("unsent:" ^ bt_s ty ^ string_of_int (int_of_n i)))
                | Some n -> for _ = 1 to 4 do s := step_or !s (Adv (ty, nat_of_int n)) "adv" done
              done) copies_tbl;
          (* pack by pack, in write order *)
          List.iter (fun (ty, ids) ->
              List.iter (fun i ->
                  match find_pos (fun (j, stg) -> j = i && int_of_nat stg = 4) (get !s ty).inflight with
                  | None -> raise (Reject "no-item-at-stage-4")
                  | Some n -> s := step_or !s (Adv (ty, nat_of_int n)) "add") ids;
              s := step_or !s (Flush ty) "flush";
              s := step_or !s (WriteP ty) "write";
              s := step_or !s (IndexP ty) "index") packs;
          (* drain: whatever is still in flight must be dropped by the filters *)
          let drained = ref 0 in
          List.iter (fun ty ->
              while (get !s ty).inflight <> [] do
                s := step_or !s (Adv (ty, O)) "drain"; incr drained
              done) [Data; Tree];
          let s = !s in
          let idx_match = (s.idx = packs) in
          let leftover = List.concat_map (fun ty -> List.map (fun i -> (ty, i)) (get s ty).cur) [Data; Tree] in
          Printf.sprintf "admitted final=%b idx_match=%b drained=%d leftover=[%s]" (final s) idx_match !drained (show_bl leftover)
        with Reject w -> "rejected:" ^ w in
      Printf.sprintf "%s root=%d tidfun=%b tidinj=%b nall=%d sent=[%s]" verdict (int_of_n r.r_root) !tidfun !tidinj
        (List.length r.r_all) (show_bl sent)
  end

let () = main_loop case
