(* C07 — observers of the C13 packer pipeline: no pack holds an id twice; the number of
   copies of a blob never exceeds the number of times it was handed to the packer; once a
   copy is indexed, the only further copies are the in-flight items that had already
   passed the last filter (the exact duplicate window). *)
From Verif.Base Require Import Tactics.
From Verif.C13 Require Import Extracted Model Proofs Proofs2.
From Verif.C07 Require Import Extracted Model.
Local Open Scope nat_scope.

(* ------------------------------------------------------------------ counting lemmas *)
Definition flen {A} (f : A -> bool) (l : list A) : nat := length (filter f l).
Definition b2n (b : bool) : nat := if b then 1 else 0.

Lemma flen_app {A} (f : A -> bool) l1 l2 : flen f (l1 ++ l2) = flen f l1 + flen f l2.
Proof. unfold flen. rewrite filter_app, app_length. reflexivity. Qed.

Lemma flen_cons {A} (f : A -> bool) x l : flen f (x :: l) = b2n (f x) + flen f l.
Proof. unfold flen. cbn [filter]. destruct (f x); reflexivity. Qed.

Lemma flen_remove_at {A} (f : A -> bool) : forall n l x,
  nth_error l n = Some x -> flen f (remove_at n l) + b2n (f x) = flen f l.
Proof.
  induction n as [|n IH]; intros [|y l] x H; cbn in H; try discriminate.
  - injection H as ->. cbn [remove_at]. rewrite flen_cons. lia.
  - cbn [remove_at]. rewrite !flen_cons. specialize (IH l x H). lia.
Qed.

Lemma flen_replace_at {A} (f : A -> bool) : forall n l x y,
  nth_error l n = Some x -> flen f (replace_at n y l) + b2n (f x) = flen f l + b2n (f y).
Proof.
  induction n as [|n IH]; intros [|z l] x y H; cbn in H; try discriminate.
  - injection H as ->. cbn [replace_at]. rewrite !flen_cons. lia.
  - cbn [replace_at]. rewrite !flen_cons. specialize (IH l x y H). lia.
Qed.

Lemma cnt_flen i l : cnt i l = flen (N.eqb i) l.
Proof. reflexivity. Qed.

Lemma cnt_app i l1 l2 : cnt i (l1 ++ l2) = cnt i l1 + cnt i l2.
Proof. apply flen_app. Qed.

Lemma cnt_nil i : cnt i [] = 0.
Proof. reflexivity. Qed.

Lemma cnt_single i j : cnt i [j] = b2n (N.eqb i j).
Proof. unfold cnt. cbn [filter]. destruct (N.eqb i j); reflexivity. Qed.

Lemma cnt_zero_notin i l : ~ In i l -> cnt i l = 0.
Proof.
  induction l as [|x l IH]; intro H; [reflexivity|]. unfold cnt in *. cbn [filter].
  destruct (N.eqb_spec i x) as [->|Ne].
  - exfalso. apply H. left. reflexivity.
  - apply IH. intro Hi. apply H. right. assumption.
Qed.

Lemma cnt_pos_in i l : In i l -> 1 <= cnt i l.
Proof.
  induction l as [|x l IH]; intro H; [contradiction|]. unfold cnt in *. cbn [filter].
  destruct (N.eqb_spec i x) as [->|Ne]; cbn [length]; [lia|].
  destruct H as [->|H]; [contradiction|]. apply IH. assumption.
Qed.

Lemma cnt_nodup i l : NoDup l -> cnt i l <= 1.
Proof.
  induction 1 as [|x l Hx Hn IH]; [cbn; lia|]. unfold cnt in *. cbn [filter].
  destruct (N.eqb_spec i x) as [->|Ne]; [|assumption].
  cbn [length]. fold (cnt x l). rewrite (cnt_zero_notin x l Hx). lia.
Qed.

Lemma packs_of_app t l1 l2 : packs_of t (l1 ++ l2) = packs_of t l1 ++ packs_of t l2.
Proof. unfold packs_of. apply flat_map_app. Qed.

Lemma packs_of_single_same t pk : packs_of t [(t, pk)] = pk.
Proof. unfold packs_of. cbn. rewrite (proj2 (bt_eqb_eq t t) eq_refl). apply app_nil_r. Qed.

Lemma packs_of_single_other t t' pk : t' <> t -> packs_of t [(t', pk)] = [].
Proof.
  intro H. unfold packs_of. cbn. destruct (bt_eqb t' t) eqn:E; [|reflexivity].
  apply bt_eqb_eq in E. contradiction.
Qed.

Definition sf (k : nat) (i : id) (x : id * nat) : bool := N.eqb i (fst x) && (k <=? snd x).

Lemma stage_ge_flen k p i : stage_ge k p i = flen (sf k i) (inflight p).
Proof. reflexivity. Qed.

(* ------------------------------------------------------------------ the indexer only grows *)
Lemma step_indexed_mono s e s' : step s e = Some s' -> forall x, In x (indexed s) -> In x (indexed s').
Proof.
  intro St. destruct e as [t i|t n|t|t|t]; cbn [step] in St.
  - injection St as <-. destruct t; cbn; auto.
  - destruct (nth_error (inflight (get s t)) n) as [[i stg]|]; [|discriminate].
    destruct stg as [|[|[|[|stg]]]]; try destr_if; injection St as <-; destruct t; cbn; auto.
  - destruct (cur (get s t)); [discriminate|]. destr_if; [|discriminate]. injection St as <-. destruct t; cbn; auto.
  - destruct (wip (get s t)); [discriminate|]. destruct (wq (get s t)); [discriminate|].
    injection St as <-. destruct t; cbn; auto.
  - destruct (wip (get s t)); [|discriminate]. injection St as <-. destruct t; cbn; intros x H; apply in_or_app; right; assumption.
Qed.

Lemma step_ix_has_mono s e s' t i : step s e = Some s' -> ix_has s t i = true -> ix_has s' t i = true.
Proof.
  intros St H. apply ix_has_iff. apply ix_has_iff in H.
  eapply ix_in_mono; [|eassumption]. apply (step_indexed_mono s e s' St).
Qed.

(* ------------------------------------------------------------------ potentials *)
(* copies + in-flight items of stage >= k, for one blob (t, i) *)
Definition W (k : nat) (s : st) (t : bt) (i : id) : nat := copies s t i + stage_ge k (get s t) i.

Definition send_of (t : bt) (i : id) (e : ev) : nat :=
  match e with Send t' i' => b2n (bt_eqb t' t && N.eqb i i') | _ => 0 end.

Ltac unfoldW :=
  unfold W, copies, held, with_inflight; rewrite ?stage_ge_flen;
  cbn [get set pd pt idx written indexed requested cur wq wip inflight];
  repeat rewrite ?cnt_app, ?concat_app, ?packs_of_app, ?flen_app.

(* what an Adv step does to the counters of one id, whatever the stage *)
Lemma adv_cur_cnt i i0 c :
  cnt i (if mem i0 c then c else c ++ [i0]) <= cnt i c + b2n (N.eqb i i0).
Proof. destruct (mem i0 c); [lia|]. rewrite cnt_app, cnt_single. lia. Qed.

Lemma step_W_general k t i s e s' :
  step s e = Some s' ->
  (k = 0 \/ (k = 4 /\ ix_has s t i = true)) ->
  W k s' t i <= W k s t i + (if k =? 0 then send_of t i e else 0).
Proof.
  intros St K.
  assert (Hk : forall i0 stg, stg < 3 -> b2n (sf k i (i0, S stg)) = b2n (sf k i (i0, stg))).
  { intros i0 stg L. unfold sf. cbn [fst snd]. destruct K as [->|[-> _]].
    - reflexivity.
    - replace (4 <=? S stg) with false by (symmetry; apply Nat.leb_gt; lia).
      replace (4 <=? stg) with false by (symmetry; apply Nat.leb_gt; lia). reflexivity. }
  destruct e as [t0 i0|t0 n|t0|t0|t0]; cbn [step] in St.
  - (* Send *)
    injection St as <-.
    assert (F1 : flen (sf k i) [(i0, 0)] = if k =? 0 then b2n (N.eqb i i0) else 0).
    { unfold flen, sf. cbn [filter fst snd].
      destruct K as [->|[-> _]]; cbn [Nat.leb Nat.eqb]; rewrite ?andb_true_r, ?andb_false_r;
        [destruct (N.eqb i i0); reflexivity | reflexivity]. }
    destruct t0, t; unfoldW; rewrite ?F1; cbn [send_of bt_eqb andb b2n]; destruct (k =? 0); lia.
  - (* Adv *)
    destruct (nth_error (inflight (get s t0)) n) as [[i0 stg]|] eqn:Nth; [|discriminate].
    assert (Drop : forall s1, s1 = set s t0 (with_inflight (get s t0) (remove_at n (inflight (get s t0)))) ->
                   W k s1 t i <= W k s t i).
    { intros s1 ->. pose proof (flen_remove_at (sf k i) n _ _ Nth) as F.
      destruct t0, t; unfoldW; cbn [get] in F; lia. }
    assert (Adv3 : forall s1, stg < 3 ->
                   s1 = set s t0 (with_inflight (get s t0) (replace_at n (i0, S stg) (inflight (get s t0)))) ->
                   W k s1 t i <= W k s t i).
    { intros s1 L ->. pose proof (flen_replace_at (sf k i) n _ _ (i0, S stg) Nth) as F.
      rewrite (Hk i0 stg L) in F.
      destruct t0, t; unfoldW; cbn [get] in F; lia. }
    assert (Z : (if k =? 0 then send_of t i (Adv t0 n) else 0) = 0) by (destruct (k =? 0); reflexivity).
    rewrite Z, Nat.add_0_r. clear Z.
    destruct stg as [|[|[|[|stg]]]].
    + destr_if; injection St as <-; [apply Drop; reflexivity | apply Adv3; [lia | reflexivity]].
    + destr_if; injection St as <-; [apply Drop; reflexivity | apply Adv3; [lia | reflexivity]].
    + injection St as <-. apply Adv3; [lia | reflexivity].
    + (* the last filter *)
      destruct (ix_has s t0 i0) eqn:IX; injection St as <-; [apply Drop; reflexivity|].
      pose proof (flen_replace_at (sf k i) n _ _ (i0, 4) Nth) as F.
      assert (E : b2n (sf k i (i0, 4)) = b2n (sf k i (i0, 3)) \/ (t0 <> t)).
      { destruct K as [->|[-> IXi]]; [left; reflexivity|].
        destruct t0, t; try (right; discriminate); left; unfold sf; cbn [fst snd];
          destruct (N.eqb_spec i i0) as [->|Ne]; try reflexivity; rewrite IXi in IX; discriminate. }
      destruct t0, t; unfoldW; cbn [get] in F; destruct E as [E|E]; try lia; try (exfalso; apply E; reflexivity).
    + (* add_raw *)
      injection St as <-.
      pose proof (flen_remove_at (sf k i) n _ _ Nth) as F.
      pose proof (adv_cur_cnt i i0 (cur (get s t0))) as C.
      assert (E : b2n (sf k i (i0, S (S (S (S stg))))) = b2n (N.eqb i i0)).
      { unfold sf. cbn [fst snd]. destruct K as [->|[-> _]]; cbn [Nat.leb]; rewrite andb_true_r; reflexivity. }
      rewrite E in F.
      destruct t0, t; unfoldW; cbn [get] in F, C; lia.
  - (* Flush *)
    assert (Z : (if k =? 0 then send_of t i (Flush t0) else 0) = 0) by (destruct (k =? 0); reflexivity).
    rewrite Z, Nat.add_0_r. clear Z.
    destruct (cur (get s t0)) as [|c0 cr] eqn:C; [discriminate|]. destr_if; [|discriminate]. injection St as <-.
    destruct t0, t; unfoldW; cbn [get] in C; rewrite ?C; cbn [concat]; rewrite ?app_nil_r, ?cnt_nil; lia.
  - (* WriteP *)
    assert (Z : (if k =? 0 then send_of t i (WriteP t0) else 0) = 0) by (destruct (k =? 0); reflexivity).
    rewrite Z, Nat.add_0_r. clear Z.
    destruct (wip (get s t0)) eqn:Wp; [discriminate|]. destruct (wq (get s t0)) as [|pk rest] eqn:Q; [discriminate|].
    injection St as <-.
    destruct t0, t; unfoldW; cbn [get] in Wp, Q; rewrite ?Wp, ?Q; cbn [concat]; rewrite ?cnt_app, ?cnt_nil; lia.
  - (* IndexP *)
    assert (Z : (if k =? 0 then send_of t i (IndexP t0) else 0) = 0) by (destruct (k =? 0); reflexivity).
    rewrite Z, Nat.add_0_r. clear Z.
    destruct (wip (get s t0)) as [pk|] eqn:Wp; [|discriminate]. injection St as <-.
    destruct t0, t; unfoldW; cbn [get] in Wp; rewrite ?Wp;
      rewrite ?packs_of_single_same, ?(packs_of_single_other Data Tree), ?(packs_of_single_other Tree Data) by discriminate;
      rewrite ?cnt_nil; lia.
Qed.

Fixpoint count_send_events (t : bt) (i : id) (es : list ev) : nat :=
  match es with [] => 0 | e :: r => send_of t i e + count_send_events t i r end.

Lemma count_send_events_sends t i : forall es, count_send_events t i es = count_sends t i (sends es).
Proof.
  induction es as [|e es IH]; [reflexivity|]. cbn [count_send_events].
  destruct e as [t0 i0| | | |]; cbn [send_of sends]; try (rewrite IH; reflexivity).
  unfold count_sends in *. cbn [filter fst snd]. rewrite IH.
  destruct (bt_eqb t0 t && N.eqb i i0); reflexivity.
Qed.

(* copies + in flight <= number of times handed to the packer *)
Lemma run_W0 t i : forall es s s', run s es = Some s' -> W 0 s' t i <= W 0 s t i + count_send_events t i es.
Proof.
  induction es as [|e es IH]; intros s s' R; cbn [run] in R.
  - injection R as <-. cbn. lia.
  - destruct (step s e) as [s1|] eqn:St; [|discriminate].
    pose proof (step_W_general 0 t i s e s1 St (or_introl eq_refl)) as H1. cbn [Nat.eqb] in H1.
    specialize (IH s1 s' R). cbn [count_send_events]. lia.
Qed.

(* the duplicate window: once (t, i) is indexed, copies + items past the last filter never grows *)
Lemma run_W4 t i : forall es s s', run s es = Some s' -> ix_has s t i = true ->
  W 4 s' t i <= W 4 s t i /\ ix_has s' t i = true.
Proof.
  induction es as [|e es IH]; intros s s' R IX; cbn [run] in R.
  - injection R as <-. split; [lia | assumption].
  - destruct (step s e) as [s1|] eqn:St; [|discriminate].
    pose proof (step_W_general 4 t i s e s1 St (or_intror (conj eq_refl IX))) as H1. cbn [Nat.eqb] in H1.
    pose proof (step_ix_has_mono s e s1 t i St IX) as IX1.
    destruct (IH s1 s' R IX1) as [H2 H3]. split; [lia | assumption].
Qed.

Lemma W_init k t i : W k init t i = 0.
Proof. destruct t; reflexivity. Qed.

Lemma final_stage_zero k s t i : final s = true -> stage_ge k (get s t) i = 0.
Proof.
  intro F. pose proof (final_quiet s t F) as Q. unfold quiet in Q.
  repeat (apply andb_true_iff in Q; destruct Q as [Q ?]).
  unfold stage_ge. destruct (inflight (get s t)); [reflexivity | discriminate].
Qed.

Lemma final_held_nil s t : final s = true -> held (get s t) = [].
Proof.
  intro F. pose proof (final_quiet s t F) as Q. unfold quiet in Q.
  repeat (apply andb_true_iff in Q; destruct Q as [Q ?]).
  unfold held. destruct (cur (get s t)); [|discriminate]. destruct (wq (get s t)); [|discriminate].
  destruct (wip (get s t)); [discriminate|]. reflexivity.
Qed.

(* ------------------------------------------------------------------ no id twice in one pack *)
Definition PK (p : packer) : Prop :=
  NoDup (cur p) /\ Forall (@NoDup id) (wq p) /\ (forall pk, wip p = Some pk -> NoDup pk).
Definition PInv (s : st) : Prop :=
  PK (pd s) /\ PK (pt s) /\ Forall (fun x => NoDup (snd x)) (written s) /\ Forall (fun x => NoDup (snd x)) (idx s).

Lemma PK_get s t : PInv s -> PK (get s t).
Proof. intros (A & B & _). destruct t; assumption. Qed.

Lemma nodup_snoc (x : id) l : NoDup l -> ~ In x l -> NoDup (l ++ [x]).
Proof.
  intros N H. eapply Permutation_NoDup; [apply Permutation_cons_append|]. constructor; assumption.
Qed.

Lemma pinv_init : PInv init.
Proof.
  unfold PInv, PK, init. cbn. repeat split; try constructor; intros; discriminate.
Qed.

Lemma pinv_set s t p : PInv s -> PK p -> PInv (set s t p).
Proof. intros (A & B & C & D) P. destruct t; unfold PInv; cbn; tauto. Qed.

Lemma step_pinv s e s' : PInv s -> step s e = Some s' -> PInv s'.
Proof.
  intros I St. pose proof I as (A & B & C & D).
  destruct e as [t i|t n|t|t|t]; cbn [step] in St.
  - injection St as <-. pose proof (PK_get s t I) as P. destruct t; unfold PInv, PK in *; cbn; tauto.
  - pose proof (PK_get s t I) as (P1 & P2 & P3).
    destruct (nth_error (inflight (get s t)) n) as [[i stg]|]; [|discriminate].
    assert (K : forall l, PInv (set s t (with_inflight (get s t) l))).
    { intro l. apply pinv_set; [assumption|]. unfold PK, with_inflight; cbn [cur wq wip inflight]. tauto. }
    destruct stg as [|[|[|[|stg]]]]; try destr_if; injection St as <-; try apply K.
    all: apply pinv_set; [assumption|]; unfold PK; cbn [cur wq wip inflight]; repeat split; try assumption.
    apply nodup_snoc; [assumption|]. intro Hi. apply mem_In in Hi. congruence.
  - pose proof (PK_get s t I) as (P1 & P2 & P3).
    destruct (cur (get s t)) as [|c0 cr] eqn:Cu; [discriminate|]. destr_if; [|discriminate]. injection St as <-.
    apply pinv_set; [assumption|]. unfold PK; cbn [cur wq wip inflight]. repeat split; [constructor | | assumption].
    apply Forall_app. split; [assumption|]. constructor; [assumption | constructor].
  - pose proof (PK_get s t I) as (P1 & P2 & P3).
    destruct (wip (get s t)) eqn:Wp; [discriminate|]. destruct (wq (get s t)) as [|pk rest] eqn:Q; [discriminate|].
    injection St as <-. inversion P2 as [|? ? Npk Nrest]; subst.
    assert (PK {| inflight := inflight (get s t); cur := cur (get s t); wq := rest; wip := Some pk |}) as P'.
    { unfold PK; cbn [cur wq wip inflight]. repeat split; try assumption. intros pk' E. injection E as <-. assumption. }
    pose proof (pinv_set s t _ I P') as (A' & B' & C' & D').
    unfold PInv. cbn [pd pt written idx].
    split; [exact A'|]. split; [exact B'|]. split; [|exact D'].
    apply Forall_app. split; [exact C'|]. constructor; [exact Npk | constructor].
  - pose proof (PK_get s t I) as (P1 & P2 & P3).
    destruct (wip (get s t)) as [pk|] eqn:Wp; [|discriminate]. injection St as <-.
    assert (PK {| inflight := inflight (get s t); cur := cur (get s t); wq := wq (get s t); wip := None |}) as P'.
    { unfold PK; cbn [cur wq wip inflight]. repeat split; try assumption. intros pk' E. discriminate. }
    pose proof (pinv_set s t _ I P') as (A' & B' & C' & D').
    unfold PInv. cbn [pd pt written idx].
    split; [exact A'|]. split; [exact B'|]. split; [exact C'|].
    apply Forall_app. split; [exact D'|]. constructor; [cbn [snd]; apply P3; reflexivity | constructor].
Qed.

Lemma run_pinv : forall es s s', PInv s -> run s es = Some s' -> PInv s'.
Proof.
  induction es as [|e es IH]; intros s s' I R; cbn [run] in R.
  - injection R as <-. assumption.
  - destruct (step s e) as [s1|] eqn:St; [|discriminate]. eapply IH; [|eassumption]. eapply step_pinv; eassumption.
Qed.
