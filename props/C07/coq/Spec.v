(* C07 — declarative vocabulary of the property statements. *)
From Verif.Base Require Import Tactics.
From Verif.C13 Require Import Extracted Model Proofs Proofs2.
From Verif.C07 Require Import Extracted Model.
Local Open Scope nat_scope.

(* one complete backup run: the archiver's requests `r_sent r` reach the two packers in some
   order (files are archived in parallel), interleaved in any way with the internal events
   of the pipeline, and the pipeline has drained (Packer::finalize on both packers) *)
Definition backup_run (tid : list entry -> id) (g : gindex) (its : list item)
           (es : list ev) (s : st) (r : result) : Prop :=
  archive tid g its = Some r /\ Permutation (sends es) (r_sent r) /\
  run init es = Some s /\ final s = true.

(* blob (t, i) lies in a pack written and indexed by this run *)
Definition stored (s : st) (t : bt) (i : id) : Prop := exists pk, In (t, pk) (idx s) /\ In i pk.

(* an abstract content-defined chunker *)
Section ChunkerSpec.
  Variable chunker : bytes -> list bytes.
  (* a lossless partition into non-empty chunks (C06 proves this of the real chunkers) *)
  Definition chunker_partition : Prop :=
    (forall s, concat (chunker s) = s) /\ (forall s c, In c (chunker s) -> c <> []).
  (* cut points depend only on the bytes since the previous cut: if c is cut off a stream that
     continues (a cut decided by the content of c, not by the end of the input), then c is cut
     off every stream that starts with c, and chunking restarts afresh behind it *)
  Definition resync_after_common_cut : Prop :=
    forall c r, c <> [] -> r <> [] -> hd_error (chunker (c ++ r)) = Some c ->
    forall r', chunker (c ++ r') = c :: chunker r'.
End ChunkerSpec.
