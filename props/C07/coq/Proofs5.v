(* C07 — edit locality for the chunkers of rustic_core: the abstract hypotheses
   `chunker_partition` and `resync_after_common_cut` are discharged for C06's specification
   `cuts p` of the Rabin chunker (which C06 proves equal to what the ChunkIter model yields for
   every read schedule, size hint and arithmetic mode) and for `fixed_cuts size`. *)
From Verif.Base Require Import Tactics.
From Verif.C06 Require Import Extracted Model Spec ListLemmas Proofs Proofs2 Proofs3 Proofs4.
From Verif.C07 Require Import Model Spec Proofs Proofs4.
Local Open Scope nat_scope.

(* ------------------------------------------------------------------ Rabin *)
(* the scan for the cut is causal: if it stops exactly at the end of l although input remains,
   it stops there whatever follows *)
Lemma scan_causal T mask mx : forall (l : list N) w len r r',
  r <> [] -> scan T mask mx w len (l ++ r) = length l -> scan T mask mx w len (l ++ r') = length l.
Proof.
  induction l as [|b l IH]; intros w len r r' Nr H; rewrite scan_unfold in H |- *; cbn [app length] in *.
  - destruct (mx <=? len)%N; [reflexivity|]. destruct (N.land (a_hash w) mask =? 0)%N; [reflexivity|].
    destruct r; [congruence | discriminate].
  - destruct (mx <=? len)%N; [discriminate|]. destruct (N.land (a_hash w) mask =? 0)%N; [discriminate|].
    injection H as H. f_equal. eapply IH; eassumption.
Qed.

Lemma first_len_causal T p (c r r' : list N) :
  r <> [] -> first_len T p (c ++ r) = length c -> first_len T p (c ++ r') = length c.
Proof.
  intros Nr H. unfold first_len in *.
  destruct (nlen (c ++ r) <? c_min p)%N eqn:E1.
  - exfalso. rewrite app_length in H. destruct r; [congruence | cbn [length] in H; lia].
  - apply N.ltb_ge in E1.
    assert (Hmin : (c_min p <= nlen c)%N).
    { unfold nlen. pose proof (scan_le_len T (c_avg p - 1)%N (c_max p) (ndrop (c_min p) (c ++ r)) (win_start T p (c ++ r)) (c_min p)). lia. }
    assert (E2 : (nlen (c ++ r') <? c_min p)%N = false).
    { apply N.ltb_ge. rewrite nlen_app. lia. }
    rewrite E2.
    assert (Hw : forall x, win_start T p (c ++ x) = win_start T p c).
    { intro x. unfold win_start. f_equal. f_equal. f_equal. rewrite ntake_app.
      replace (c_min p - nlen c)%N with 0%N by lia. rewrite ntake_0, app_nil_r. reflexivity. }
    assert (Hd : forall x, ndrop (c_min p) (c ++ x) = ndrop (c_min p) c ++ x).
    { intro x. rewrite ndrop_app. replace (c_min p - nlen c)%N with 0%N by lia. rewrite ndrop_0. reflexivity. }
    rewrite Hw, Hd in H. rewrite Hw, Hd.
    assert (Hl : length c = N.to_nat (c_min p) + length (ndrop (c_min p) c)).
    { pose proof (nlen_ndrop (c_min p) c) as Q. unfold nlen in Q, Hmin. lia. }
    rewrite Hl in H |- *. f_equal.
    eapply scan_causal; [exact Nr | lia].
Qed.

Lemma cuts_first p (c x : list N) : params_ok p = true -> c <> [] ->
  first_len (tab_of p) p (c ++ x) = length c -> cuts p (c ++ x) = c :: cuts p x.
Proof.
  intros Hp Nc H. pose proof (params_ok_hyps p Hp) as Hy. pose proof (h_min1 _ _ Hy) as Hm.
  unfold cuts. assert (Hne : c ++ x <> []) by (destruct c; [congruence | discriminate]).
  destruct (length (c ++ x)) as [|m] eqn:El; [destruct c; [congruence | discriminate]|].
  rewrite (cuts_fuel_cons m (tab_of p) p _ Hne), H.
  rewrite firstn_app, Nat.sub_diag, firstn_all, firstn_O, app_nil_r.
  rewrite skipn_app, Nat.sub_diag, skipn_all, skipn_O. cbn [app]. f_equal.
  apply cuts_fuel_indep; [exact Hm | | lia].
  rewrite app_length in El. destruct c; [congruence | cbn [length] in El; lia].
Qed.

Lemma rabin_partition p : params_ok p = true -> chunker_partition (cuts p).
Proof.
  intro Hp. split.
  - intro s. destruct (chunks_concat_lemma Debug p 0%N s [] Hp) as [cs [E C]].
    rewrite (chunks_impl_is_cuts Debug p 0%N s [] Hp) in E. injection E as <-. exact C.
  - intros s c Hc. destruct (chunks_bounds_lemma Debug p 0%N s [] Hp) as [cs [E B]].
    rewrite (chunks_impl_is_cuts Debug p 0%N s [] Hp) in E. injection E as <-.
    apply in_split in Hc. destruct Hc as [l1 [l2 Hc]]. destruct (B l1 c l2 Hc) as [Pos _].
    intro Z. subst c. cbn in Pos. lia.
Qed.

Lemma rabin_resync p : params_ok p = true -> resync_after_common_cut (cuts p).
Proof.
  intros Hp c r Nc Nr Hd r'.
  pose proof (params_ok_hyps p Hp) as Hy. pose proof (h_min1 _ _ Hy) as Hm.
  assert (F : first_len (tab_of p) p (c ++ r) = length c).
  { unfold cuts in Hd. assert (Hne : c ++ r <> []) by (destruct c; [congruence | discriminate]).
    destruct (length (c ++ r)) as [|m] eqn:El; [destruct c; [congruence | discriminate]|].
    rewrite (cuts_fuel_cons m (tab_of p) p _ Hne) in Hd. cbn [hd_error] in Hd. injection Hd as Hd.
    pose proof (first_len_le (tab_of p) p (c ++ r)) as Le.
    rewrite <- Hd at 2. rewrite firstn_length. lia. }
  apply cuts_first; [exact Hp | exact Nc |]. eapply first_len_causal; eassumption.
Qed.

(* ------------------------------------------------------------------ fixed size *)
Lemma fixed_partition size : (0 < size)%N -> chunker_partition (fixed_cuts size).
Proof.
  intro Hs. split.
  - intro s. destruct (fixed_size_partition_lemma size 0%N s [] Hs) as (_ & C & _). exact C.
  - intros s. unfold fixed_cuts. generalize (length s) at 1. intro n. revert s.
    induction n as [|n IH]; intros s c Hc; [contradiction|].
    destruct s as [|b s']; [contradiction|].
    rewrite fixed_cuts_fuel_cons in Hc by discriminate. destruct Hc as [<-|Hc].
    + cbn [ntake]. destruct (size =? 0)%N eqn:E; [apply N.eqb_eq in E; lia | discriminate].
    + eapply IH; eassumption.
Qed.

Lemma fixed_cuts_unfold size (s : list N) : (0 < size)%N -> s <> [] ->
  fixed_cuts size s = ntake size s :: fixed_cuts size (ndrop size s).
Proof.
  intros Hs Hne. unfold fixed_cuts.
  destruct (length s) as [|m] eqn:El; [destruct s; [congruence | discriminate]|].
  rewrite (fixed_cuts_fuel_cons m size s Hne). f_equal.
  pose proof (ndrop_shorter size s Hs Hne) as Sh.
  (* fuel independence *)
  assert (Ind : forall a b (x : list N), length x <= a -> length x <= b -> fixed_cuts_fuel a size x = fixed_cuts_fuel b size x).
  { induction a as [|a IH]; intros b x Ha Hb.
    - destruct x; [now rewrite !fixed_cuts_fuel_nil | cbn [length] in Ha; lia].
    - destruct x as [|y x'] eqn:Ex; [now rewrite !fixed_cuts_fuel_nil|]. rewrite <- Ex in *.
      assert (Nx : x <> []) by (rewrite Ex; discriminate).
      destruct b as [|b]; [rewrite Ex in Hb; cbn [length] in Hb; lia|].
      rewrite !(fixed_cuts_fuel_cons _ size x Nx). f_equal.
      pose proof (ndrop_shorter size x Hs Nx). apply IH; lia. }
  apply Ind; lia.
Qed.

Lemma fixed_resync size : (0 < size)%N -> resync_after_common_cut (fixed_cuts size).
Proof.
  intros Hs c r Nc Nr Hd r'.
  assert (Hne : c ++ r <> []) by (destruct c; [congruence | discriminate]).
  rewrite (fixed_cuts_unfold size _ Hs Hne) in Hd. cbn [hd_error] in Hd. injection Hd as Hd.
  assert (Hl : nlen c = size).
  { pose proof (nlen_ntake size (c ++ r)) as Q. rewrite Hd, nlen_app in Q.
    assert (0 < nlen r)%N by (destruct r; [congruence | unfold nlen; cbn [length]; lia]). lia. }
  assert (Hne' : c ++ r' <> []) by (destruct c; [congruence | discriminate]).
  rewrite (fixed_cuts_unfold size _ Hs Hne').
  rewrite ntake_app, ndrop_app, Hl, N.sub_diag, ntake_0, ndrop_0, app_nil_r.
  rewrite (ntake_all size c) by lia. rewrite (ndrop_all size c) by lia. reflexivity.
Qed.

(* a stream whose length is a multiple of the chunk size is cut independently of what follows *)
Lemma fixed_cuts_app_aligned size : (0 < size)%N -> forall k (u v : list N),
  nlen u = (N.of_nat k * size)%N -> fixed_cuts size (u ++ v) = fixed_cuts size u ++ fixed_cuts size v.
Proof.
  intros Hs. induction k as [|k IH]; intros u v Hu.
  - assert (u = []) as -> by (apply nlen_0; lia). reflexivity.
  - assert (Nu : u <> []) by (intro Z; subst u; cbn in Hu; lia).
    assert (Nuv : u ++ v <> []) by (destruct u; [congruence | discriminate]).
    rewrite (fixed_cuts_unfold size _ Hs Nuv), (fixed_cuts_unfold size _ Hs Nu).
    rewrite ntake_app, ndrop_app.
    replace (size - nlen u)%N with 0%N by lia. rewrite ntake_0, ndrop_0, app_nil_r. cbn [app]. f_equal.
    apply IH. rewrite nlen_ndrop. lia.
Qed.

(* OVERWRITE / APPEND keep the alignment.  u = the whole chunks before the edit; the middle
   (rest of the chunk the edit starts in, the edit, up to the next multiple of the chunk size
   or to the end of the file) has the same length in both files: only its chunks differ. *)
Lemma fixed_size_overwrite_local_lemma size k j (u m m' v : list N) :
  (0 < size)%N -> nlen u = (N.of_nat k * size)%N ->
  nlen m = nlen m' -> (nlen m = (N.of_nat j * size)%N \/ v = []) ->
  fixed_cuts size (u ++ m ++ v) = fixed_cuts size u ++ fixed_cuts size m ++ fixed_cuts size v /\
  fixed_cuts size (u ++ m' ++ v) = fixed_cuts size u ++ fixed_cuts size m' ++ fixed_cuts size v.
Proof.
  intros Hs Hu Hm [Hj| ->].
  - rewrite !(fixed_cuts_app_aligned size Hs k u _ Hu).
    rewrite (fixed_cuts_app_aligned size Hs j m v Hj).
    rewrite (fixed_cuts_app_aligned size Hs j m' v) by lia. split; reflexivity.
  - rewrite !app_nil_r. rewrite !(fixed_cuts_app_aligned size Hs k u _ Hu). split; reflexivity.
Qed.

(* INSERT / DELETE of a length that is not a multiple of the chunk size shift every later
   boundary: no cut behind the edit is common to both files except the end (so the general
   theorem applies with S2 = [] only): one byte inserted in front changes all four chunks *)
Lemma fixed_size_insert_shifts_lemma :
  fixed_cuts 2 [1;2;3;4;5;6;7]%N = [[1;2];[3;4];[5;6];[7]]%N /\
  fixed_cuts 2 [9;1;2;3;4;5;6;7]%N = [[9;1];[2;3];[4;5];[6;7]]%N.
Proof. split; reflexivity. Qed.
