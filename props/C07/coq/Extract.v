(* C07 — extraction of the archiver model and the observers (ExtrOcamlBasic only); the
   transition system itself is C13's. *)
Require Extraction.
Require Import ExtrOcamlBasic.
From Verif.C13 Require Import Extracted Model.
From Verif.C07 Require Import Extracted Model.
Extraction "model_ml.ml" archive ghas reload init step run final get ix_has copies stage_ge cnt packs_of count_sends data_gate tree_gate indexer_typed zcut file_sends.
