(* C07 — the archiver: what is handed to the packers is exactly the part of the new
   state that the loaded typed index does not have; tree id and blob set do not depend
   on the index. *)
From Verif.Base Require Import Tactics.
From Verif.C13 Require Import Extracted Model Proofs Proofs2.
From Verif.C07 Require Import Extracted Model.
Local Open Scope nat_scope.

(* the gates read from the source are `!has` *)
Lemma gate_negb t b : gate t b = negb b.
Proof. destruct t; reflexivity. Qed.

Definition keep (g : gindex) (x : bt * id) : bool := negb (ghas g (fst x) (snd x)).

Lemma ghas_In g t i : ghas g t i = true <-> In (t, i) g.
Proof.
  unfold ghas. rewrite existsb_exists. split.
  - intros [[t' i'] [H E]]. apply andb_true_iff in E. destruct E as [E1 E2]. cbn in E1, E2.
    apply bt_eqb_eq in E1. apply N.eqb_eq in E2. subst. assumption.
  - intro H. exists (t, i). split; [assumption|]. cbn. apply andb_true_iff. split.
    + apply bt_eqb_eq. reflexivity.
    + apply N.eqb_refl.
Qed.

Lemma ghas_false_In g t i : ghas g t i = false <-> ~ In (t, i) g.
Proof.
  split.
  - intros H HI. apply ghas_In in HI. congruence.
  - intro H. destruct (ghas g t i) eqn:E; [|reflexivity]. exfalso. apply H. apply ghas_In. assumption.
Qed.

Lemma ghas_app g1 g2 t i : ghas (g1 ++ g2) t i = ghas g1 t i || ghas g2 t i.
Proof. unfold ghas. apply existsb_app. Qed.

Section ArchiverProofs.
  Variable tid : list entry -> id.

  (* --- sent = filter (not in the loaded index) all ------------------------------ *)
  Definition AInv (g : gindex) (a : ast) : Prop := a_sent a = filter (keep g) (a_all a).

  Lemma offer_inv g a t i : AInv g a -> AInv g (offer g a t i).
  Proof.
    unfold AInv, offer. cbn [a_sent a_all]. intro H. rewrite filter_app, H. f_equal.
    cbn [filter]. unfold keep. cbn [fst snd]. rewrite gate_negb. destruct (ghas g t i); reflexivity.
  Qed.

  Lemma offer_chunks_inv g cs : forall a, AInv g a -> AInv g (offer_chunks g a cs).
  Proof.
    unfold offer_chunks. induction cs as [|c cs IH]; intros a H; cbn [fold_left]; [assumption|].
    apply IH. apply offer_inv. assumption.
  Qed.

  Lemma set_tree_inv g a tr st : AInv g a -> AInv g (set_tree a tr st).
  Proof. unfold AInv, set_tree. cbn. tauto. Qed.

  Lemma astep_inv g a it a' : AInv g a -> astep tid g a it = Some a' -> AInv g a'.
  Proof.
    intros H S. destruct it as [nm m| |nm m cs]; cbn [astep] in S.
    - injection S as <-. apply set_tree_inv. assumption.
    - destruct (a_stack a) as [|[[nm m] tr] st]; [discriminate|]. injection S as <-.
      apply set_tree_inv. apply offer_inv. assumption.
    - injection S as <-. apply set_tree_inv. apply offer_chunks_inv. assumption.
  Qed.

  Lemma arun_inv g : forall its a a', AInv g a -> arun tid g a its = Some a' -> AInv g a'.
  Proof.
    induction its as [|it its IH]; intros a a' H R; cbn [arun] in R.
    - injection R as <-. assumption.
    - destruct (astep tid g a it) as [a1|] eqn:S; [|discriminate].
      eapply IH; [|eassumption]. eapply astep_inv; eassumption.
  Qed.

  Lemma sent_is_filter_lemma g its r :
    archive tid g its = Some r -> r_sent r = filter (keep g) (r_all r).
  Proof.
    unfold archive. destruct (arun tid g a_init its) as [a|] eqn:R; [|discriminate].
    intro E. injection E as <-.
    exact (offer_inv g a Tree (tid (a_tree a)) (arun_inv g its a_init a eq_refl R)).
  Qed.

  (* --- tree id and blob list are functions of the source only ------------------- *)
  Definition shape (a : ast) := (a_tree a, a_stack a, a_all a).

  Lemma shape_offer g1 g2 a1 a2 t i :
    shape a1 = shape a2 -> shape (offer g1 a1 t i) = shape (offer g2 a2 t i).
  Proof. unfold shape, offer. cbn. intro H. injection H as -> -> ->. reflexivity. Qed.

  Lemma shape_offer_chunks g1 g2 cs : forall a1 a2,
    shape a1 = shape a2 -> shape (offer_chunks g1 a1 cs) = shape (offer_chunks g2 a2 cs).
  Proof.
    unfold offer_chunks. induction cs as [|c cs IH]; intros a1 a2 H; cbn [fold_left]; [assumption|].
    apply IH. apply shape_offer. assumption.
  Qed.

  Lemma shape_set_tree a1 a2 tr st :
    a_all a1 = a_all a2 -> shape (set_tree a1 tr st) = shape (set_tree a2 tr st).
  Proof. unfold shape, set_tree. cbn. intros ->. reflexivity. Qed.

  Lemma shape_all a1 a2 : shape a1 = shape a2 -> a_all a1 = a_all a2.
  Proof. unfold shape. intro H. injection H. auto. Qed.
  Lemma shape_tree a1 a2 : shape a1 = shape a2 -> a_tree a1 = a_tree a2.
  Proof. unfold shape. intro H. injection H. auto. Qed.
  Lemma shape_stack a1 a2 : shape a1 = shape a2 -> a_stack a1 = a_stack a2.
  Proof. unfold shape. intro H. injection H. auto. Qed.

  Lemma astep_shape g1 g2 a1 a2 it a1' :
    shape a1 = shape a2 -> astep tid g1 a1 it = Some a1' ->
    exists a2', astep tid g2 a2 it = Some a2' /\ shape a1' = shape a2'.
  Proof.
    intros H S. pose proof (shape_tree _ _ H) as Ht. pose proof (shape_stack _ _ H) as Hs.
    destruct it as [nm m| |nm m cs]; cbn [astep] in S |- *.
    - injection S as <-. eexists. split; [reflexivity|]. rewrite Ht, Hs.
      apply shape_set_tree. apply shape_all. assumption.
    - rewrite <- Hs. destruct (a_stack a1) as [|[[nm m] tr] st]; [discriminate|]. injection S as <-.
      eexists. split; [reflexivity|]. rewrite Ht. apply shape_set_tree. apply shape_all.
      apply shape_offer. assumption.
    - injection S as <-. eexists. split; [reflexivity|]. rewrite Ht, Hs. apply shape_set_tree.
      apply shape_all. apply shape_offer_chunks. assumption.
  Qed.

  Lemma arun_shape g1 g2 : forall its a1 a2 a1',
    shape a1 = shape a2 -> arun tid g1 a1 its = Some a1' ->
    exists a2', arun tid g2 a2 its = Some a2' /\ shape a1' = shape a2'.
  Proof.
    induction its as [|it its IH]; intros a1 a2 a1' H R; cbn [arun] in R |- *.
    - injection R as <-. eexists. split; [reflexivity | assumption].
    - destruct (astep tid g1 a1 it) as [b1|] eqn:S; [|discriminate].
      destruct (astep_shape g1 g2 a1 a2 it b1 H S) as [b2 [S2 H2]]. rewrite S2.
      eapply IH; eassumption.
  Qed.

  Lemma archive_index_independent_lemma g1 g2 its r1 :
    archive tid g1 its = Some r1 ->
    exists r2, archive tid g2 its = Some r2 /\ r_root r2 = r_root r1 /\ r_all r2 = r_all r1.
  Proof.
    unfold archive. destruct (arun tid g1 a_init its) as [a1|] eqn:R; [|discriminate].
    intro E. injection E as <-.
    destruct (arun_shape g1 g2 its a_init a_init a1 eq_refl R) as [a2 [R2 H]]. rewrite R2.
    eexists. split; [reflexivity|]. rewrite <- (shape_tree _ _ H). split.
    - reflexivity.
    - symmetry.
      exact (shape_all _ _ (shape_offer g1 g2 a1 a2 Tree (tid (a_tree a1)) H)).
  Qed.

  (* --- consequences -------------------------------------------------------------- *)
  Lemma sent_iff_lemma g its r t i :
    archive tid g its = Some r ->
    (In (t, i) (r_sent r) <-> In (t, i) (r_all r) /\ ghas g t i = false).
  Proof.
    intro A. rewrite (sent_is_filter_lemma g its r A). rewrite filter_In. unfold keep. cbn [fst snd].
    rewrite negb_true_iff. tauto.
  Qed.

  Lemma covered_adds_nothing_lemma g its r :
    archive tid g its = Some r ->
    (forall t i, In (t, i) (r_all r) -> ghas g t i = true) -> r_sent r = [].
  Proof.
    intros A C. rewrite (sent_is_filter_lemma g its r A).
    assert (forall l, (forall x, In x l -> keep g x = false) -> filter (keep g) l = []) as F.
    { induction l as [|x l IH]; intro H; cbn [filter]; [reflexivity|].
      rewrite (H x) by (left; reflexivity). apply IH. intros y Hy. apply H. right. assumption. }
    apply F. intros [t i] H. unfold keep. cbn [fst snd]. rewrite (C t i H). reflexivity.
  Qed.

  (* the number of times a blob is handed to its packer = the number of times it occurs in
     the new data, if the loaded index does not have it; 0 otherwise *)
  Lemma count_sends_filter t i : forall l g,
    count_sends t i (filter (keep g) l) = if ghas g t i then 0 else count_sends t i l.
  Proof.
    unfold count_sends. induction l as [|[t' i'] l IH]; intro g; cbn [filter].
    - destruct (ghas g t i); reflexivity.
    - unfold keep at 1. cbn [fst snd]. destruct (ghas g t' i') eqn:G; cbn [negb filter fst snd].
      + rewrite IH. destruct (bt_eqb t' t && N.eqb i i') eqn:E.
        * apply andb_true_iff in E. destruct E as [E1 E2]. apply bt_eqb_eq in E1. apply N.eqb_eq in E2.
          subst. rewrite G. reflexivity.
        * reflexivity.
      + destruct (bt_eqb t' t && N.eqb i i') eqn:E; cbn [length]; rewrite IH;
          destruct (ghas g t i) eqn:G2; try reflexivity.
        apply andb_true_iff in E. destruct E as [E1 E2]. apply bt_eqb_eq in E1. apply N.eqb_eq in E2.
        subst. rewrite G in G2. discriminate.
  Qed.

  Lemma sends_count_lemma g its r t i :
    archive tid g its = Some r ->
    count_sends t i (r_sent r) = if ghas g t i then 0 else count_sends t i (r_all r).
  Proof. intro A. rewrite (sent_is_filter_lemma g its r A). apply count_sends_filter. Qed.
  (* the chunk-level view: what the archiver hands over for one file is `file_sends` of its chunks *)
  Lemma offer_chunks_sent g cs : forall a,
    a_sent (offer_chunks g a cs) =
    a_sent a ++ map (fun c => (Data, c)) (filter (fun c => gate Data (ghas g Data c)) cs).
  Proof.
    unfold offer_chunks. induction cs as [|c cs IH]; intro a; cbn [fold_left filter map].
    - rewrite app_nil_r. reflexivity.
    - rewrite IH. unfold offer. cbn [a_sent]. rewrite <- app_assoc. f_equal.
      destruct (gate Data (ghas g Data c)); reflexivity.
  Qed.

  Lemma file_step_sends_lemma g a nm m (h : bytes -> id) (chunks : list bytes) a' :
    astep tid g a (Other nm m (map h chunks)) = Some a' ->
    a_sent a' = a_sent a ++ map (fun c => (Data, c)) (file_sends h g chunks).
  Proof.
    cbn [astep]. intro E. injection E as <-. unfold set_tree. cbn [a_sent].
    rewrite offer_chunks_sent. reflexivity.
  Qed.
  (* the data blobs of the new state are the chunks of its files *)
  Lemma offer_chunks_all g cs : forall a,
    a_all (offer_chunks g a cs) = a_all a ++ map (fun c => (Data, c)) cs.
  Proof.
    unfold offer_chunks. induction cs as [|c cs IH]; intro a; cbn [fold_left map].
    - rewrite app_nil_r. reflexivity.
    - rewrite IH. unfold offer. cbn [a_all]. rewrite <- app_assoc. reflexivity.
  Qed.

  Lemma astep_data g a it a' c :
    astep tid g a it = Some a' ->
    (In (Data, c) (a_all a') <-> In (Data, c) (a_all a) \/ In c (data_of [it])).
  Proof.
    intro S. destruct it as [nm m| |nm m cs]; cbn [astep] in S; unfold data_of; cbn [flat_map].
    - injection S as <-. cbn. tauto.
    - destruct (a_stack a) as [|[[nm m] tr] st]; [discriminate|]. injection S as <-.
      unfold set_tree, offer. cbn [a_all]. rewrite in_app_iff. cbn [In]. split.
      + intros [H|[H|[]]]; [left; exact H | discriminate].
      + intros [H|[]]. left. exact H.
    - injection S as <-. unfold set_tree. cbn [a_all]. rewrite offer_chunks_all, in_app_iff, app_nil_r.
      rewrite in_map_iff. split.
      + intros [H|[x [E H]]]; [left; exact H|]. injection E as <-. right. exact H.
      + intros [H|H]; [left; exact H|]. right. exists c. split; [reflexivity | exact H].
  Qed.

  Lemma arun_data g c : forall its a a',
    arun tid g a its = Some a' ->
    (In (Data, c) (a_all a') <-> In (Data, c) (a_all a) \/ In c (data_of its)).
  Proof.
    induction its as [|it its IH]; intros a a' R; cbn [arun] in R.
    - injection R as <-. unfold data_of. cbn. tauto.
    - destruct (astep tid g a it) as [a1|] eqn:S; [|discriminate].
      rewrite (IH a1 a' R), (astep_data g a it a1 c S).
      assert (data_of (it :: its) = data_of [it] ++ data_of its) as ->
        by (unfold data_of; cbn [flat_map]; rewrite app_nil_r; reflexivity).
      rewrite in_app_iff. tauto.
  Qed.

  Lemma all_data_iff_lemma g its r c :
    archive tid g its = Some r -> (In (Data, c) (r_all r) <-> In c (data_of its)).
  Proof.
    unfold archive. destruct (arun tid g a_init its) as [a|] eqn:R; [|discriminate].
    intro E. injection E as <-. cbn [r_all]. unfold offer. cbn [a_all]. rewrite in_app_iff.
    rewrite (arun_data g c its a_init a R). cbn [a_all a_init In]. split.
    - intros [[[]|H]|[H|[]]]; [exact H | discriminate].
    - intro H. left. right. exact H.
  Qed.
End ArchiverProofs.
