(* C07 — the edit-locality theorems instantiated for what the ChunkIter model of C06 yields
   (every read schedule, size hint, arithmetic mode) and for the fixed-size chunker. *)
From Verif.Base Require Import Tactics.
From Verif.C06 Require Import Extracted Model Spec ListLemmas Proofs Proofs2 Proofs3 Proofs4.
From Verif.C13 Require Model.
From Verif.C07 Require Import Model Spec Proofs Proofs4 Proofs5.
Local Open Scope nat_scope.
Local Notation DataT := Verif.C13.Model.Data.

Section Rabin.
  Variable p : cparams.
  Hypothesis Hp : params_ok p = true.

  Lemma impl_cuts md hint s sched cs : chunks_impl md p hint s sched = Ok cs -> cs = cuts p s.
  Proof. rewrite (chunks_impl_is_cuts md p hint s sched Hp). intro E. injection E as <-. reflexivity. Qed.

  Lemma edit_locality_rabin_lemma md1 hint1 sched1 md2 hint2 sched2 pre P' X Y S1 S2 rest la ra lb rb ca cb :
    let A := concat pre ++ P' ++ X ++ S1 ++ S2 in
    let B := concat pre ++ P' ++ Y ++ S1 ++ S2 in
    chunks_impl md1 p hint1 A sched1 = Ok ca -> chunks_impl md2 p hint2 B sched2 = Ok cb ->
    ca = pre ++ rest -> P' ++ X ++ S1 ++ S2 <> [] ->
    ca = la ++ ra -> concat la = concat pre ++ P' ++ X ++ S1 ->
    cb = lb ++ rb -> concat lb = concat pre ++ P' ++ Y ++ S1 ->
    exists ma mb suf,
      ca = pre ++ ma ++ suf /\ cb = pre ++ mb ++ suf /\
      concat ma = P' ++ X ++ S1 /\ concat mb = P' ++ Y ++ S1 /\
      forall md hint sched, chunks_impl md p hint S2 sched = Ok suf.
  Proof.
    intros A B IA IB HA NR HLa CLa HLb CLb.
    apply impl_cuts in IA. apply impl_cuts in IB. subst ca cb.
    destruct (edit_locality_lemma (cuts p) (rabin_partition p Hp) (rabin_resync p Hp)
                pre P' X Y S1 S2 rest la ra lb rb HA NR HLa CLa HLb CLb) as [ma [mb [EA [EB [Ca Cb]]]]].
    exists ma, mb, (cuts p S2). repeat split; try assumption.
    intros md hint sched. apply chunks_impl_is_cuts. exact Hp.
  Qed.

  Lemma edit_uploads_only_disturbed_rabin_lemma (h : bytes -> N) (g : gindex)
        md1 hint1 sched1 md2 hint2 sched2 pre P' X Y S1 S2 rest la ra lb rb ca cb :
    let A := concat pre ++ P' ++ X ++ S1 ++ S2 in
    let B := concat pre ++ P' ++ Y ++ S1 ++ S2 in
    chunks_impl md1 p hint1 A sched1 = Ok ca -> chunks_impl md2 p hint2 B sched2 = Ok cb ->
    ca = pre ++ rest -> P' ++ X ++ S1 ++ S2 <> [] ->
    ca = la ++ ra -> concat la = concat pre ++ P' ++ X ++ S1 ->
    cb = lb ++ rb -> concat lb = concat pre ++ P' ++ Y ++ S1 ->
    (forall c, In c ca -> ghas g DataT (h c) = true) ->
    exists mb suf, cb = pre ++ mb ++ suf /\ concat mb = P' ++ Y ++ S1 /\
                   forall i, In i (file_sends h g cb) -> In i (map h mb).
  Proof.
    intros A B IA IB HA NR HLa CLa HLb CLb G.
    apply impl_cuts in IA. apply impl_cuts in IB. subst ca cb.
    destruct (edit_uploads_only_disturbed_lemma (cuts p) (rabin_partition p Hp) (rabin_resync p Hp)
                h g pre P' X Y S1 S2 rest la ra lb rb HA NR HLa CLa HLb CLb G) as [mb [EB [Cb Sub]]].
    exists mb, (cuts p S2). repeat split; assumption.
  Qed.

  Lemma edit_backup_uploads_only_disturbed_rabin_lemma (tid : list entry -> N) (h : bytes -> N) (g : gindex)
        md1 hint1 sched1 md2 hint2 sched2 pre P' X Y S1 S2 rest la ra lb rb ca cb its1 its2 nm m r :
    let A := concat pre ++ P' ++ X ++ S1 ++ S2 in
    let B := concat pre ++ P' ++ Y ++ S1 ++ S2 in
    chunks_impl md1 p hint1 A sched1 = Ok ca -> chunks_impl md2 p hint2 B sched2 = Ok cb ->
    ca = pre ++ rest -> P' ++ X ++ S1 ++ S2 <> [] ->
    ca = la ++ ra -> concat la = concat pre ++ P' ++ X ++ S1 ->
    cb = lb ++ rb -> concat lb = concat pre ++ P' ++ Y ++ S1 ->
    (forall c, In c ca -> ghas g DataT (h c) = true) ->
    (forall c, In c (data_of (its1 ++ its2)) -> ghas g DataT c = true) ->
    archive tid g (its1 ++ Other nm m (map h cb) :: its2) = Some r ->
    exists mb suf, cb = pre ++ mb ++ suf /\ concat mb = P' ++ Y ++ S1 /\
                   forall c, In (DataT, c) (r_sent r) -> In c (map h mb).
  Proof.
    intros A B IA IB HA NR HLa CLa HLb CLb GA GO AR.
    apply impl_cuts in IA. apply impl_cuts in IB. subst ca cb.
    destruct (edit_backup_uploads_only_disturbed_lemma (cuts p) (rabin_partition p Hp) (rabin_resync p Hp)
                tid h g pre P' X Y S1 S2 rest la ra lb rb its1 its2 nm m r HA NR HLa CLa HLb CLb GA GO AR)
      as [mb [EB [Cb Sub]]].
    exists mb, (cuts p S2). repeat split; assumption.
  Qed.
End Rabin.

Section Fixed.
  Variable size : N.
  Hypothesis Hs : (0 < size)%N.

  Lemma fixed_impl_cuts hint s sched cs : fixed_impl size hint s sched = Some cs -> cs = fixed_cuts size s.
  Proof.
    destruct (fixed_size_partition_lemma size hint s sched Hs) as (E & _). rewrite E.
    intro Q. injection Q as <-. reflexivity.
  Qed.

  (* the general theorem holds for the fixed-size chunker as well (its cuts depend on the NUMBER of
     bytes since the previous cut only); a common cut behind the edit exists where the alignment
     of both files agrees - always at the end *)
  Lemma edit_locality_fixed_lemma hint1 sched1 hint2 sched2 pre P' X Y S1 S2 rest la ra lb rb ca cb :
    let A := concat pre ++ P' ++ X ++ S1 ++ S2 in
    let B := concat pre ++ P' ++ Y ++ S1 ++ S2 in
    fixed_impl size hint1 A sched1 = Some ca -> fixed_impl size hint2 B sched2 = Some cb ->
    ca = pre ++ rest -> P' ++ X ++ S1 ++ S2 <> [] ->
    ca = la ++ ra -> concat la = concat pre ++ P' ++ X ++ S1 ->
    cb = lb ++ rb -> concat lb = concat pre ++ P' ++ Y ++ S1 ->
    exists ma mb suf,
      ca = pre ++ ma ++ suf /\ cb = pre ++ mb ++ suf /\
      concat ma = P' ++ X ++ S1 /\ concat mb = P' ++ Y ++ S1 /\
      forall hint sched, fixed_impl size hint S2 sched = Some suf.
  Proof.
    intros A B IA IB HA NR HLa CLa HLb CLb.
    apply fixed_impl_cuts in IA. apply fixed_impl_cuts in IB. subst ca cb.
    destruct (edit_locality_lemma (fixed_cuts size) (fixed_partition size Hs) (fixed_resync size Hs)
                pre P' X Y S1 S2 rest la ra lb rb HA NR HLa CLa HLb CLb) as [ma [mb [EA [EB [Ca Cb]]]]].
    exists ma, mb, (fixed_cuts size S2). repeat split; try assumption.
    intros hint sched. destruct (fixed_size_partition_lemma size hint S2 sched Hs) as (E & _). exact E.
  Qed.

  Lemma fixed_size_overwrite_local_impl_lemma k j (u m m' v : list N) hint1 sched1 hint2 sched2 :
    nlen u = (N.of_nat k * size)%N -> nlen m = nlen m' -> (nlen m = (N.of_nat j * size)%N \/ v = []) ->
    fixed_impl size hint1 (u ++ m ++ v) sched1 = Some (fixed_cuts size u ++ fixed_cuts size m ++ fixed_cuts size v) /\
    fixed_impl size hint2 (u ++ m' ++ v) sched2 = Some (fixed_cuts size u ++ fixed_cuts size m' ++ fixed_cuts size v) /\
    concat (fixed_cuts size m) = m /\ concat (fixed_cuts size m') = m'.
  Proof.
    intros Hu Hm Hj.
    destruct (fixed_size_overwrite_local_lemma size k j u m m' v Hs Hu Hm Hj) as [E1 E2].
    destruct (fixed_size_partition_lemma size hint1 (u ++ m ++ v) sched1 Hs) as (I1 & _).
    destruct (fixed_size_partition_lemma size hint2 (u ++ m' ++ v) sched2 Hs) as (I2 & _).
    rewrite I1, I2, E1, E2. repeat split; apply (proj1 (fixed_partition size Hs)).
  Qed.
End Fixed.

(* ------------------------------------------------------------------ a concrete Rabin instance *)
(* restic's documented polynomial, min = avg = 4096, max = 8192; three chunks of zeros (the
   fingerprint of an all-zero window is 0: a content-defined cut as soon as min is reached); one
   byte of the middle chunk overwritten: the chunks before and behind are untouched *)
Definition rp : cparams := {| c_poly := 0x3DA3358B4DC173; c_avg := 4096; c_min := 4096; c_max := 8192 |}.
Definition rz : bytes := repeat 0%N 4096.
Definition rm_old : bytes := repeat 0%N 1904 ++ [0%N] ++ repeat 0%N 2191.
Definition rm_new : bytes := repeat 0%N 1904 ++ [1%N] ++ repeat 0%N 2191.
Lemma rabin_example_lemma :
  params_ok rp = true /\
  cuts rp (concat [rz] ++ repeat 0%N 1904 ++ [0%N] ++ repeat 0%N 2191 ++ rz) = [rz] ++ [rm_old] ++ [rz] /\
  cuts rp (concat [rz] ++ repeat 0%N 1904 ++ [1%N] ++ repeat 0%N 2191 ++ rz) = [rz] ++ [rm_new] ++ [rz].
Proof. split; [vm_compute; reflexivity|]. split; vm_compute; reflexivity. Qed.
