(* C07 — edit locality at the chunk level, over an abstract content-defined chunker. *)
From Verif.Base Require Import Tactics.
From Verif.C13 Require Import Extracted Model Proofs.
From Verif.C07 Require Import Extracted Model Spec Proofs.
Local Open Scope nat_scope.

Section Locality.
  Variable chunker : bytes -> list bytes.
  Hypothesis Part : chunker_partition chunker.
  Hypothesis Resync : resync_after_common_cut chunker.

  Lemma chunker_nil : chunker [] = [].
  Proof.
    destruct Part as [Pc Pn]. destruct (chunker []) as [|c l] eqn:E; [reflexivity|].
    exfalso. apply (Pn [] c); [rewrite E; left; reflexivity|].
    pose proof (Pc []) as H. rewrite E in H. cbn [concat] in H. apply app_eq_nil in H. tauto.
  Qed.

  Lemma concat_nil_nonempty (l : list bytes) : (forall c, In c l -> c <> []) -> concat l = [] -> l = [].
  Proof.
    intros N H. destruct l as [|c l]; [reflexivity|]. exfalso. cbn [concat] in H.
    apply app_eq_nil in H. apply (N c); [left; reflexivity | tauto].
  Qed.

  (* chunks cut off by the content survive any change behind them *)
  Lemma keep_prefix : forall pre R rest, R <> [] -> chunker (concat pre ++ R) = pre ++ rest ->
    forall R', chunker (concat pre ++ R') = pre ++ chunker R'.
  Proof.
    destruct Part as [Pc Pn].
    induction pre as [|c pre IH]; intros R rest NR H R'; [reflexivity|].
    cbn [concat] in *. rewrite <- app_assoc in *. cbn [app] in H.
    assert (Nc : c <> []) by (apply (Pn (c ++ concat pre ++ R)); rewrite H; left; reflexivity).
    assert (Nr : concat pre ++ R <> []).
    { intro E. apply app_eq_nil in E. tauto. }
    assert (Hd : hd_error (chunker (c ++ concat pre ++ R)) = Some c) by (rewrite H; reflexivity).
    pose proof (Resync c (concat pre ++ R) Nc Nr Hd) as Q.
    rewrite (Q (concat pre ++ R')). cbn [app]. f_equal.
    apply (IH R rest NR). rewrite (Q (concat pre ++ R)) in H. injection H as H. exact H.
  Qed.

  (* behind a cut, the chunk list is the chunk list of the remaining bytes *)
  Lemma split_at_cut : forall l t r, chunker (concat l ++ t) = l ++ r -> r = chunker t.
  Proof.
    destruct Part as [Pc Pn].
    induction l as [|c l IH]; intros t r H; [symmetry; exact H|].
    cbn [concat] in H. rewrite <- app_assoc in H. cbn [app] in H.
    assert (Nc : c <> []) by (apply (Pn (c ++ concat l ++ t)); rewrite H; left; reflexivity).
    destruct (concat l ++ t) as [|b rest] eqn:E.
    - (* nothing behind c *)
      apply app_eq_nil in E. destruct E as [El Et]. subst t. rewrite chunker_nil.
      rewrite app_nil_r in H. pose proof (Pc c) as C. rewrite H in C. cbn [concat] in C.
      assert (concat (l ++ r) = []) as Z.
      { apply (app_inv_head c). rewrite app_nil_r. exact C. }
      assert (l ++ r = []) as Z2.
      { apply concat_nil_nonempty; [|exact Z]. intros x Hx. apply (Pn c). rewrite H. right. exact Hx. }
      apply app_eq_nil in Z2. tauto.
    - assert (Nr : b :: rest <> []) by discriminate.
      assert (Hd : hd_error (chunker (c ++ b :: rest)) = Some c) by (rewrite H; reflexivity).
      pose proof (Resync c (b :: rest) Nc Nr Hd (b :: rest)) as Q. rewrite Q in H. injection H as H.
      apply IH. rewrite E. exact H.
  Qed.

  Lemma prefix_by_concat : forall (p1 p2 s1 s2 : list bytes) (u : bytes),
    p1 ++ s1 = p2 ++ s2 -> concat p2 = concat p1 ++ u -> (forall c, In c p1 -> c <> []) ->
    exists m, p2 = p1 ++ m /\ concat m = u.
  Proof.
    induction p1 as [|c p1 IH]; intros p2 s1 s2 u E C N.
    - exists p2. split; [reflexivity | exact C].
    - destruct p2 as [|c' p2].
      + exfalso. cbn [concat] in C. symmetry in C. rewrite <- app_assoc in C. apply app_eq_nil in C.
        apply (N c); [left; reflexivity | tauto].
      + cbn [app] in E. injection E as <- E. cbn [concat] in C. rewrite <- app_assoc in C.
        apply app_inv_head in C.
        destruct (IH p2 s1 s2 u E C) as [m [M1 M2]]; [intros x Hx; apply N; right; exact Hx|].
        exists m. split; [cbn [app]; f_equal; exact M1 | exact M2].
  Qed.

  (* EDIT LOCALITY.  Old file = pre-chunks ++ P' ++ X ++ S1 ++ S2, new file = the same with X
     replaced by Y (insert: X = [], delete: Y = [], overwrite: same length; prepend: pre = [],
     P' = []; append: S1 = S2 = []).  `pre` = chunks of the old file ending at or before the edit
     by a content-defined cut; S1|S2 = a place behind the edit where BOTH files have a cut (the end
     of the files always is one).  Then the two chunk lists differ only between these two cuts. *)
  Lemma edit_locality_lemma pre P' X Y S1 S2 rest la ra lb rb :
    let A := concat pre ++ P' ++ X ++ S1 ++ S2 in
    let B := concat pre ++ P' ++ Y ++ S1 ++ S2 in
    chunker A = pre ++ rest -> P' ++ X ++ S1 ++ S2 <> [] ->
    chunker A = la ++ ra -> concat la = concat pre ++ P' ++ X ++ S1 ->
    chunker B = lb ++ rb -> concat lb = concat pre ++ P' ++ Y ++ S1 ->
    exists ma mb,
      chunker A = pre ++ ma ++ chunker S2 /\ chunker B = pre ++ mb ++ chunker S2 /\
      concat ma = P' ++ X ++ S1 /\ concat mb = P' ++ Y ++ S1.
  Proof.
    intros A B HA NR HLa CLa HLb CLb. destruct Part as [Pc Pn].
    pose proof (keep_prefix pre _ rest NR HA) as K.
    assert (Npre : forall c, In c pre -> c <> []).
    { intros c Hc. apply (Pn A). rewrite HA. apply in_or_app. left. exact Hc. }
    (* old file *)
    assert (ra = chunker S2) as ->.
    { apply (split_at_cut la S2 ra). rewrite CLa. repeat rewrite <- app_assoc. exact HLa. }
    destruct (prefix_by_concat pre la rest (chunker S2) (P' ++ X ++ S1)) as [ma [Ma Ca]];
      [transitivity (chunker A); [symmetry; exact HA | exact HLa] | exact CLa | exact Npre |].
    (* new file *)
    assert (rb = chunker S2) as ->.
    { apply (split_at_cut lb S2 rb). rewrite CLb. repeat rewrite <- app_assoc. exact HLb. }
    pose proof (K (P' ++ Y ++ S1 ++ S2)) as HB. fold B in HB.
    destruct (prefix_by_concat pre lb (chunker (P' ++ Y ++ S1 ++ S2)) (chunker S2) (P' ++ Y ++ S1)) as [mb [Mb Cb]];
      [transitivity (chunker B); [symmetry; exact HB | exact HLb] | exact CLb | exact Npre |].
    exists ma, mb. subst la lb. rewrite <- !app_assoc in HLa, HLb. repeat split; assumption.
  Qed.

  (* hence only the chunks between the two cuts can be uploaded *)
  Lemma edit_uploads_only_disturbed_lemma (h : bytes -> id) (g : gindex) pre P' X Y S1 S2 rest la ra lb rb :
    let A := concat pre ++ P' ++ X ++ S1 ++ S2 in
    let B := concat pre ++ P' ++ Y ++ S1 ++ S2 in
    chunker A = pre ++ rest -> P' ++ X ++ S1 ++ S2 <> [] ->
    chunker A = la ++ ra -> concat la = concat pre ++ P' ++ X ++ S1 ->
    chunker B = lb ++ rb -> concat lb = concat pre ++ P' ++ Y ++ S1 ->
    (forall c, In c (chunker A) -> ghas g Data (h c) = true) ->
    exists mb, chunker B = pre ++ mb ++ chunker S2 /\ concat mb = P' ++ Y ++ S1 /\
               forall i, In i (file_sends h g (chunker B)) -> In i (map h mb).
  Proof.
    intros A B HA NR HLa CLa HLb CLb G.
    destruct (edit_locality_lemma pre P' X Y S1 S2 rest la ra lb rb HA NR HLa CLa HLb CLb)
      as [ma [mb [EA [EB [Ca Cb]]]]].
    exists mb. split; [exact EB|]. split; [exact Cb|].
    intros i Hi. unfold file_sends in Hi. apply filter_In in Hi. destruct Hi as [Hi Hg].
    rewrite gate_negb in Hg. apply negb_true_iff in Hg.
    fold B in EB. rewrite EB in Hi. rewrite !map_app in Hi.
    apply in_app_or in Hi. destruct Hi as [Hi|Hi]; [|apply in_app_or in Hi; destruct Hi as [Hi|Hi]].
    - exfalso. apply in_map_iff in Hi. destruct Hi as [c [<- Hc]].
      rewrite G in Hg; [discriminate|]. fold A in EA. rewrite EA. apply in_or_app. left. exact Hc.
    - exact Hi.
    - exfalso. apply in_map_iff in Hi. destruct Hi as [c [<- Hc]].
      rewrite G in Hg; [discriminate|]. fold A in EA. rewrite EA. apply in_or_app. right. apply in_or_app. right. exact Hc.
  Qed.
  (* the same at the level of a whole backup: one file of the source edited, everything else
     (and the old version of the file) already in the loaded index -> the only DATA blobs handed
     to the packer are chunks between the two cuts *)
  Lemma edit_backup_uploads_only_disturbed_lemma (tid : list entry -> id) (h : bytes -> id) (g : gindex)
        pre P' X Y S1 S2 rest la ra lb rb its1 its2 nm m r :
    let A := concat pre ++ P' ++ X ++ S1 ++ S2 in
    let B := concat pre ++ P' ++ Y ++ S1 ++ S2 in
    chunker A = pre ++ rest -> P' ++ X ++ S1 ++ S2 <> [] ->
    chunker A = la ++ ra -> concat la = concat pre ++ P' ++ X ++ S1 ->
    chunker B = lb ++ rb -> concat lb = concat pre ++ P' ++ Y ++ S1 ->
    (forall c, In c (chunker A) -> ghas g Data (h c) = true) ->
    (forall c, In c (data_of (its1 ++ its2)) -> ghas g Data c = true) ->
    archive tid g (its1 ++ Other nm m (map h (chunker B)) :: its2) = Some r ->
    exists mb, chunker B = pre ++ mb ++ chunker S2 /\ concat mb = P' ++ Y ++ S1 /\
               forall c, In (Data, c) (r_sent r) -> In c (map h mb).
  Proof.
    intros A B HA NR HLa CLa HLb CLb GA GO AR.
    destruct (edit_uploads_only_disturbed_lemma h g pre P' X Y S1 S2 rest la ra lb rb HA NR HLa CLa HLb CLb GA)
      as [mb [EB [Cb Sub]]].
    exists mb. split; [exact EB|]. split; [exact Cb|].
    intros c Hc. apply (sent_iff_lemma tid g _ r Data c AR) in Hc. destruct Hc as [Hall Hg].
    apply (all_data_iff_lemma tid g _ r c AR) in Hall.
    unfold data_of in Hall. rewrite flat_map_app in Hall. cbn [flat_map] in Hall.
    apply in_app_or in Hall. destruct Hall as [H1|H2]; [|apply in_app_or in H2; destruct H2 as [H2|H3]].
    - exfalso. rewrite GO in Hg; [discriminate|]. unfold data_of. rewrite flat_map_app. apply in_or_app. left. exact H1.
    - apply Sub. unfold file_sends. apply filter_In. split; [exact H2|]. rewrite gate_negb, Hg. reflexivity.
    - exfalso. rewrite GO in Hg; [discriminate|]. unfold data_of. rewrite flat_map_app. apply in_or_app. right. exact H3.
  Qed.
End Locality.

(* ------------------------------------------------------------------ the hypotheses are satisfiable *)
Lemma zcut_concat : forall s, concat (zcut s) = s.
Proof.
  induction s as [|b r IH]; [reflexivity|]. cbn [zcut]. destruct (N.eqb b 0).
  - cbn [concat app]. rewrite IH. reflexivity.
  - destruct (zcut r) as [|c cs]; cbn [concat app] in *; rewrite <- IH; [reflexivity|]. reflexivity.
Qed.

Lemma zcut_nonempty : forall s c, In c (zcut s) -> c <> [].
Proof.
  induction s as [|b r IH]; intros c H; [contradiction|]. cbn [zcut] in H. destruct (N.eqb b 0).
  - destruct H as [<-|H]; [discriminate | apply IH; exact H].
  - destruct (zcut r) as [|x xs].
    + destruct H as [<-|[]]. discriminate.
    + destruct H as [<-|H]; [discriminate|]. apply IH. right. exact H.
Qed.

Lemma zcut_partition : chunker_partition zcut.
Proof. split; [exact zcut_concat | exact zcut_nonempty]. Qed.

Lemma zcut_resync : resync_after_common_cut zcut.
Proof.
  unfold resync_after_common_cut. induction c as [|b c IH]; intros r Nc Nr Hd r'; [contradiction|].
  cbn [app zcut] in Hd |- *. destruct (N.eqb b 0).
  - cbn [hd_error] in Hd. injection Hd as <-. reflexivity.
  - destruct (zcut (c ++ r)) as [|x xs] eqn:E.
    + exfalso. pose proof (zcut_concat (c ++ r)) as C. rewrite E in C. cbn in C. symmetry in C.
      apply app_eq_nil in C. tauto.
    + cbn [hd_error] in Hd. injection Hd as ->.
      assert (c <> []) as Nc'.
      { apply (zcut_nonempty (c ++ r)). rewrite E. left. reflexivity. }
      assert (hd_error (zcut (c ++ r)) = Some c) as Hd' by (rewrite E; reflexivity).
      rewrite (IH r Nc' Nr Hd' r'). reflexivity.
Qed.

(* a concrete instance: two bytes inserted into the middle chunk; first and last chunk untouched *)
Lemma zcut_example :
  zcut [5;6;0; 7;8;0; 9;1;0; 3]%N = [[5;6;0]; [7;8;0]; [9;1;0]; [3]]%N /\
  zcut [5;6;0; 7;4;4;8;0; 9;1;0; 3]%N = [[5;6;0]; [7;4;4;8;0]; [9;1;0]; [3]]%N.
Proof. split; reflexivity. Qed.
