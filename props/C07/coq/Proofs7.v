(* C07 — every pack the indexer of a run holds has been written to the backend before
   (C13's transition system: the writer thread does WriteP, then IndexP).  This is what makes
   "the loaded index has the blob" mean "the blob is stored": an index entry for a pack that was
   never uploaded would make the next backup skip chunks that do not exist. *)
From Verif.Base Require Import Tactics.
From Verif.C13 Require Import Extracted Model Proofs Proofs2.
From Verif.C07 Require Import Extracted Model Spec.
Local Open Scope nat_scope.

Definition WInv (s : st) : Prop :=
  (forall t pk, In (t, pk) (idx s) -> In (t, pk) (written s)) /\
  (forall t pk, wip (get s t) = Some pk -> In (t, pk) (written s)).

Lemma winv_init : WInv init.
Proof. split; [intros t pk []|]. intros [] pk H; discriminate. Qed.

Lemma step_winv s e s' : WInv s -> step s e = Some s' -> WInv s'.
Proof.
  intros [I1 I2] St.
  pose proof (I2 Data) as I2d. pose proof (I2 Tree) as I2t. cbn [get] in I2d, I2t.
  destruct e as [t i|t n|t|t|t]; cbn [step] in St.
  - injection St as <-. destruct t; (split; [exact I1 | intros [] pk H; cbn in H |- *; auto]).
  - destruct (nth_error (inflight (get s t)) n) as [[i stg]|]; [|discriminate].
    destruct stg as [|[|[|[|stg]]]]; try destr_if; injection St as <-;
      destruct t; (split; [exact I1 | intros [] pk H; cbn in H |- *; auto]).
  - destruct (cur (get s t)); [discriminate|]. destr_if; [|discriminate]. injection St as <-.
    destruct t; (split; [exact I1 | intros [] pk H; cbn in H |- *; auto]).
  - destruct (wip (get s t)) eqn:Wp; [discriminate|]. destruct (wq (get s t)) as [|pk0 rest]; [discriminate|].
    injection St as <-.
    destruct t; cbn [get] in Wp; (split;
      [ intros t0 pk H; cbn in H |- *; apply in_or_app; left; apply I1; exact H
      | intros [] pk H; cbn in H |- *; apply in_or_app;
        first [ injection H as <-; right; left; reflexivity | left; auto ] ]).
  - destruct (wip (get s t)) as [pk0|] eqn:Wp; [|discriminate]. injection St as <-.
    destruct t; cbn [get] in Wp; (split;
      [ intros t0 pk H; cbn in H |- *; apply in_app_or in H; destruct H as [H|[H|[]]];
        [ apply I1; exact H | injection H as <- <-; auto ]
      | intros [] pk H; cbn in H |- *; first [ discriminate | auto ] ]).
Qed.

Lemma run_winv : forall es s s', WInv s -> run s es = Some s' -> WInv s'.
Proof.
  induction es as [|e es IH]; intros s s' I R; cbn [run] in R.
  - injection R as <-. exact I.
  - destruct (step s e) as [s1|] eqn:St; [|discriminate]. eapply IH; [|eassumption]. eapply step_winv; eassumption.
Qed.

Lemma indexed_implies_written_lemma es s t pk :
  run init es = Some s -> In (t, pk) (idx s) -> In (t, pk) (written s).
Proof. intros R H. exact (proj1 (run_winv es init s winv_init R) t pk H). Qed.

(* a blob the reloaded index has was in the loaded index or lies in a pack file that was written *)
Lemma reload_backed_lemma g es s t i :
  run init es = Some s -> In (t, i) (reload g s) ->
  In (t, i) g \/ exists pk, In (t, pk) (written s) /\ In i pk.
Proof.
  intros R H. unfold reload in H. apply in_app_or in H. destruct H as [H|H]; [left; exact H|]. right.
  apply in_flat_map in H. destruct H as [[t' pk] [H1 H2]]. unfold pack_blobs in H2. cbn [fst snd] in H2.
  apply in_map_iff in H2. destruct H2 as [j [E Hj]]. injection E as -> ->.
  exists pk. split; [eapply indexed_implies_written_lemma; eassumption | exact Hj].
Qed.

(* the order in the source (FileWriterHandle::process / index, Actor::new): write_bytes, then add *)
Lemma writer_order_lemma : pack_written_before_indexed = true.
Proof. reflexivity. Qed.
