(* C07 — the archiver WITH parent snapshots (ParentResult of archiver/parent.rs, as modelled by
   C11): a file whose parent node matched is not read and nothing is offered for it
   (file_archiver.rs `process`: `if matches!(parent, ParentResult::Matched(()))`), a directory
   whose serialised id equals its matched parent's subtree id takes the unchanged-tree short-cut
   of `backup_tree` (C11's `backup_tree_action`, guard regenerated from the source) and is not
   offered either.  Definitions only. *)
From Verif.Base Require Import Tactics.
From Verif.C11 Require Extracted Model.
From Verif.C13 Require Import Extracted Model.
From Verif.C07 Require Import Extracted Model.
Local Open Scope nat_scope.

Notation presult := Verif.C11.Model.presult.
Notation PMatched := Verif.C11.Model.Matched.
Notation PNotFound := Verif.C11.Model.NotFound.
Notation PNotMatched := Verif.C11.Model.NotMatched.

Inductive pitem :=
| PNewTree (name meta : N) (parent : presult N)      (* ParentResult<TreeId> *)
| PEndTree
| POther (name meta : N) (chunks : list id) (parent : presult unit).
  (* Matched tt: `chunks` is the content list of the parent node, the file is not read *)

Definition erase (it : pitem) : item :=
  match it with
  | PNewTree nm m _ => NewTree nm m
  | PEndTree => EndTree
  | POther nm m cs _ => Other nm m cs
  end.

Record pst := { p_a : ast; p_par : list (presult N) }.
Definition p_init : pst := {| p_a := a_init; p_par := [] |}.

(* a blob of the new state for which the archiver does not even ask *)
Definition note (a : ast) (t : bt) (i : id) : ast :=
  {| a_tree := a_tree a; a_stack := a_stack a; a_all := a_all a ++ [(t, i)]; a_sent := a_sent a |}.
Definition note_chunks (a : ast) (cs : list id) : ast := fold_left (fun a c => note a Data c) cs a.

Section ParentArchiver.
  Variable tid : list entry -> id.
  Variable g : gindex.

  (* TreeArchiver::backup_tree *)
  Definition tree_offer (a : ast) (par : presult N) (i : id) : ast :=
    match Verif.C11.Model.backup_tree_action par i (ghas g Tree i) with
    | Verif.C11.Model.Shortcut => note a Tree i
    | _ => offer g a Tree i
    end.

  Definition pstep (P : pst) (it : pitem) : option pst :=
    let a := p_a P in
    match it with
    | PNewTree nm m par =>
        Some {| p_a := set_tree a [] ((nm, m, a_tree a) :: a_stack a); p_par := par :: p_par P |}
    | PEndTree =>
        match a_stack a with
        | [] => None
        | (nm, m, tr) :: st =>
            let i := tid (a_tree a) in
            let par := hd PNotFound (p_par P) in
            Some {| p_a := set_tree (tree_offer a par i) (tr ++ [EDir nm m i]) st; p_par := tl (p_par P) |}
        end
    | POther nm m cs par =>
        let a' := match par with PMatched _ => note_chunks a cs | _ => offer_chunks g a cs end in
        Some {| p_a := set_tree a' (a_tree a ++ [EFile nm m cs]) (a_stack a); p_par := p_par P |}
    end.

  Fixpoint prun (P : pst) (its : list pitem) : option pst :=
    match its with
    | [] => Some P
    | it :: r => match pstep P it with Some P' => prun P' r | None => None end
    end.

  (* Archiver::archive with parents; `rootpar` = Parent::tree_id() mapped as in TreeArchiver::finalize *)
  Definition archive_p (rootpar : presult N) (its : list pitem) : option result :=
    match prun p_init its with
    | None => None
    | Some P =>
        let a := p_a P in
        let i := tid (a_tree a) in
        let a' := tree_offer a rootpar i in
        Some {| r_root := i; r_all := a_all a'; r_sent := a_sent a' |}
    end.
End ParentArchiver.
