(* C07 — dedup composed with parent-based reuse (C11): a backup with parents hands exactly the
   same blobs to the packers as the backup that reads every file, provided reused content is in
   the index (which is what C11's `process_other` guarantees) — so every theorem about `archive`
   holds for parent-based backups too. *)
From Verif.Base Require Import Tactics.
From Verif.C11 Require Extracted Model Proofs3.
From Verif.C13 Require Import Extracted Model Proofs Proofs2.
From Verif.C07 Require Import Extracted Model Spec Proofs Proofs3 ModelP.
Local Open Scope nat_scope.

Lemma offer_indexed_is_note g a t i : ghas g t i = true -> offer g a t i = note a t i.
Proof. intro H. unfold offer, note. rewrite gate_negb, H. cbn [negb]. rewrite app_nil_r. reflexivity. Qed.

Lemma offer_chunks_indexed_is_note g cs : forall a,
  (forall c, In c cs -> ghas g Data c = true) -> offer_chunks g a cs = note_chunks a cs.
Proof.
  unfold offer_chunks, note_chunks. induction cs as [|c cs IH]; intros a H; cbn [fold_left]; [reflexivity|].
  rewrite offer_indexed_is_note by (apply H; left; reflexivity). apply IH. intros x Hx. apply H. right. exact Hx.
Qed.

(* the unchanged-tree short-cut is taken only for a tree the index has (C11: guard regenerated
   from tree_archiver.rs), so it does what the gate would have done *)
Lemma tree_offer_is_offer g a par i : tree_offer g a par i = offer g a Tree i.
Proof.
  unfold tree_offer. destruct (Verif.C11.Model.backup_tree_action par i (ghas g Tree i)) eqn:E; try reflexivity.
  apply Verif.C11.Proofs3.shortcut_lemma in E. destruct E as [_ E].
  symmetry. apply offer_indexed_is_note. apply E. reflexivity.
Qed.

Definition reuse_indexed (g : gindex) (pits : list pitem) : Prop :=
  forall nm m cs u, In (POther nm m cs (PMatched u)) pits -> forall c, In c cs -> ghas g Data c = true.

Section ParentProofs.
  Variable tid : list entry -> id.

  Lemma pstep_astep g P it :
    (forall nm m cs u, it = POther nm m cs (PMatched u) -> forall c, In c cs -> ghas g Data c = true) ->
    option_map p_a (pstep tid g P it) = astep tid g (p_a P) (erase it).
  Proof.
    intro H. destruct it as [nm m par| |nm m cs par]; cbn [pstep erase astep option_map p_a].
    - reflexivity.
    - destruct (a_stack (p_a P)) as [|[[nm m] tr] st]; [reflexivity|]. cbn [option_map p_a].
      rewrite tree_offer_is_offer. reflexivity.
    - destruct par as [u| |]; try reflexivity.
      rewrite (offer_chunks_indexed_is_note g cs (p_a P) (H nm m cs u eq_refl)). reflexivity.
  Qed.

  Lemma prun_arun g : forall pits P, reuse_indexed g pits ->
    option_map p_a (prun tid g P pits) = arun tid g (p_a P) (map erase pits).
  Proof.
    induction pits as [|it pits IH]; intros P H; cbn [prun map arun]; [reflexivity|].
    assert (Hit : forall nm m cs u, it = POther nm m cs (PMatched u) -> forall c, In c cs -> ghas g Data c = true).
    { intros nm m cs u E. apply (H nm m cs u). left. exact E. }
    pose proof (pstep_astep g P it Hit) as S.
    destruct (pstep tid g P it) as [P1|]; cbn [option_map] in S; rewrite <- S; [|reflexivity].
    apply IH. intros nm m cs u Hin. apply (H nm m cs u). right. exact Hin.
  Qed.

  Lemma parent_archive_equals_full_lemma g rootpar pits :
    reuse_indexed g pits -> archive_p tid g rootpar pits = archive tid g (map erase pits).
  Proof.
    intro H. unfold archive_p, archive. pose proof (prun_arun g pits p_init H) as R. cbn [p_init p_a] in R.
    rewrite <- R. destruct (prun tid g p_init pits) as [P|]; cbn [option_map]; [|reflexivity].
    rewrite tree_offer_is_offer. reflexivity.
  Qed.

  Lemma uploads_exactly_new_parent_based_lemma g rootpar pits es s r t i :
    reuse_indexed g pits -> archive_p tid g rootpar pits = Some r ->
    Permutation (sends es) (r_sent r) -> run init es = Some s -> final s = true ->
    (In (t, i) (sends es) <-> In (t, i) (r_all r) /\ ghas g t i = false) /\
    (stored s t i <-> In (t, i) (r_all r) /\ ghas g t i = false).
  Proof.
    intros H A P R F. rewrite (parent_archive_equals_full_lemma g rootpar pits H) in A.
    assert (B : backup_run tid g (map erase pits) es s r) by (unfold backup_run; tauto).
    split; [eapply handed_iff_lemma | eapply stored_iff_lemma]; eassumption.
  Qed.

  (* after a complete run, ANY parent classification of the same source (every file matched, every
     tree short-cut, or none) hands over nothing: whatever is reused is a blob of the first state *)
  Lemma rebackup_parent_based_lemma g rootpar pits es s r :
    reuse_indexed g pits -> archive_p tid g rootpar pits = Some r ->
    Permutation (sends es) (r_sent r) -> run init es = Some s -> final s = true ->
    forall rootpar' pits', map erase pits' = map erase pits ->
    exists r', archive_p tid (reload g s) rootpar' pits' = Some r' /\ r_sent r' = [] /\
               r_root r' = r_root r /\ r_all r' = r_all r.
  Proof.
    intros H A P R F rootpar' pits' E. rewrite (parent_archive_equals_full_lemma g rootpar pits H) in A.
    assert (B : backup_run tid g (map erase pits) es s r) by (unfold backup_run; tauto).
    destruct (rebackup_adds_nothing_lemma tid g _ es s r B) as [r' [A' Q]].
    exists r'. split; [|exact Q].
    assert (RI : reuse_indexed (reload g s) pits').
    { intros nm m cs u Hin c Hc. eapply all_indexed_after_lemma; [exact B|].
      apply (all_data_iff_lemma tid g _ r c A). rewrite <- E. unfold data_of. apply in_flat_map.
      exists (Other nm m cs). split; [|exact Hc].
      apply in_map_iff. exists (POther nm m cs (PMatched u)). split; [reflexivity | exact Hin]. }
    rewrite (parent_archive_equals_full_lemma (reload g s) rootpar' pits' RI), E. exact A'.
  Qed.
End ParentProofs.

(* the bridge to C11: a file that Parent::process classifies as Matched — with the index being the
   loaded index of this run — carries a content list all of whose chunks the index has *)
Lemma reused_content_is_indexed_lemma o g P nd P' nd' u :
  Verif.C11.Model.process_other o (fun c => ghas g Data c) P nd = (P', nd', PMatched u) ->
  forall c, In c (Verif.C11.Model.content_ids nd') -> ghas g Data c = true.
Proof.
  intros H c Hc. pose proof (Verif.C11.Proofs3.process_other_lemma o (fun c => ghas g Data c) P nd P' nd' (PMatched u) H) as Q.
  cbn in Q. destruct Q as [pn [t [_ [_ [_ [_ [E Hx]]]]]]]. subst nd'.
  apply Hx. exact Hc.
Qed.

(* witness: a source with a reused file and a short-cut directory *)
Definition ex_pitems : list pitem :=
  [PNewTree 1 0 (PMatched 103%N); POther 2 0 [7; 8]%N (PMatched tt); POther 4 0 [9]%N PNotFound;
   PNewTree 3 0 (PMatched 100%N); PEndTree; PEndTree].
Definition ex_pindex : gindex := [(Data, 7%N); (Data, 8%N); (Tree, 100%N)].
Lemma parent_example_lemma :
  reuse_indexed ex_pindex ex_pitems /\
  archive_p ex_tid ex_pindex PNotFound ex_pitems = archive ex_tid ex_pindex (map erase ex_pitems) /\
  option_map r_sent (archive_p ex_tid ex_pindex PNotFound ex_pitems) = Some [(Data, 9%N); (Tree, 103%N); (Tree, 101%N)].
Proof.
  split.
  - intros nm m cs u H c Hc. cbn in H.
    destruct H as [H|[H|[H|[H|[H|[H|[]]]]]]]; try discriminate. injection H as _ _ <-.
    destruct Hc as [<-|[<-|[]]]; reflexivity.
  - split; vm_compute; reflexivity.
Qed.
