(* C07 — archiver and pipeline together: what ends up stored by a complete backup run. *)
From Verif.Base Require Import Tactics.
From Verif.C13 Require Import Extracted Model Proofs Proofs2.
From Verif.C07 Require Import Extracted Model Spec Proofs Proofs2.
Local Open Scope nat_scope.

(* read from the source (index/indexer.rs): the in-run set of indexed blobs is keyed by (type, id) *)
Lemma indexer_is_typed : indexer_typed = true.
Proof. reflexivity. Qed.

Lemma requested_iff es s x : run init es = Some s -> (In x (requested s) <-> In x (sends es)).
Proof.
  intro R. rewrite (run_requested es init s R). cbn [requested init]. rewrite app_nil_r.
  symmetry. apply in_rev.
Qed.

Lemma stored_packs_of s t i : stored s t i <-> In i (packs_of t (idx s)).
Proof.
  unfold stored, packs_of. rewrite in_flat_map. split.
  - intros [pk [H1 H2]]. exists (t, pk). split; [assumption|]. cbn [fst snd].
    rewrite (proj2 (bt_eqb_eq t t) eq_refl). assumption.
  - intros [[t' pk] [H1 H2]]. cbn [fst snd] in H2. destruct (bt_eqb t' t) eqn:E; [|contradiction].
    apply bt_eqb_eq in E. subst. exists pk. split; assumption.
Qed.

Lemma reload_has g s t i : ghas (reload g s) t i = true <-> ghas g t i = true \/ stored s t i.
Proof.
  unfold reload. rewrite ghas_app, orb_true_iff. rewrite (ghas_In (flat_map pack_blobs (idx s))).
  rewrite in_flat_map. unfold stored, pack_blobs. split; intros [H|H]; try (left; assumption); right.
  - destruct H as [[t' pk] [H1 H2]]. cbn [fst snd] in H2. apply in_map_iff in H2.
    destruct H2 as [j [E Hj]]. injection E as -> ->. exists pk. split; assumption.
  - destruct H as [pk [H1 H2]]. exists (t, pk). split; [assumption|]. cbn [fst snd].
    apply in_map_iff. exists i. split; [reflexivity | assumption].
Qed.

Section Run.
  Variable tid : list entry -> id.

  (* the blobs in the packs of the run = the blobs of the new state the loaded index lacks *)
  Lemma stored_iff_lemma g its es s r t i :
    backup_run tid g its es s r ->
    (stored s t i <-> In (t, i) (r_all r) /\ ghas g t i = false).
  Proof.
    intros (A & P & R & F). rewrite <- (sent_iff_lemma tid g its r t i A). split.
    - intros [pk [H1 H2]]. pose proof (run_inv es init s inv_init R) as I.
      pose proof (inv_origin_i s I t pk i H1 H2) as Hr. apply (requested_iff es s _ R) in Hr.
      eapply Permutation_in; eassumption.
    - intro H. apply (final_typed_lookup_lemma es s R F (or_introl indexer_is_typed)).
      apply (requested_iff es s _ R). eapply Permutation_in; [apply Permutation_sym|]; eassumption.
  Qed.

  Lemma handed_iff_lemma g its es s r t i :
    backup_run tid g its es s r ->
    (In (t, i) (sends es) <-> In (t, i) (r_all r) /\ ghas g t i = false).
  Proof.
    intros (A & P & R & F). rewrite <- (sent_iff_lemma tid g its r t i A). split; intro H.
    - eapply Permutation_in; eassumption.
    - eapply Permutation_in; [apply Permutation_sym|]; eassumption.
  Qed.

  Lemma all_indexed_after_lemma g its es s r t i :
    backup_run tid g its es s r -> In (t, i) (r_all r) -> ghas (reload g s) t i = true.
  Proof.
    intros B H. apply reload_has. destruct (ghas g t i) eqn:G; [left; reflexivity|].
    right. apply (stored_iff_lemma g its es s r t i B). split; assumption.
  Qed.

  Lemma rebackup_adds_nothing_lemma g its es s r :
    backup_run tid g its es s r ->
    exists r', archive tid (reload g s) its = Some r' /\ r_sent r' = [] /\
               r_root r' = r_root r /\ r_all r' = r_all r.
  Proof.
    intro B. pose proof B as (A & _).
    destruct (archive_index_independent_lemma tid g (reload g s) its r A) as [r' [A' [E1 E2]]].
    exists r'. repeat split; try assumption.
    apply (covered_adds_nothing_lemma tid _ its r' A'). intros t i H. rewrite E2 in H.
    eapply all_indexed_after_lemma; eassumption.
  Qed.

  (* shared content between snapshots: a later backup of ANY source against the reloaded index
     hands over only blobs that neither the earlier source nor the earlier index had *)
  Lemma next_backup_uploads_only_unseen_lemma g its1 es s r1 its2 r2 t i :
    backup_run tid g its1 es s r1 -> archive tid (reload g s) its2 = Some r2 ->
    In (t, i) (r_sent r2) ->
    In (t, i) (r_all r2) /\ ~ In (t, i) (r_all r1) /\ ghas g t i = false.
  Proof.
    intros B A2 H. apply (sent_iff_lemma tid _ its2 r2 t i A2) in H. destruct H as [H1 H2].
    split; [assumption|]. split.
    - intro H3. rewrite (all_indexed_after_lemma g its1 es s r1 t i B H3) in H2. discriminate.
    - destruct (ghas g t i) eqn:G; [|reflexivity].
      assert (ghas (reload g s) t i = true) by (apply reload_has; left; assumption). congruence.
  Qed.

  (* a tree and a file chunk with equal bytes (equal ids) are both kept, for every interleaving *)
  Lemma typed_identity_lemma g its es s r i :
    backup_run tid g its es s r -> In (Data, i) (r_all r) -> In (Tree, i) (r_all r) ->
    ghas (reload g s) Data i = true /\ ghas (reload g s) Tree i = true /\
    (ghas g Data i = false -> stored s Data i) /\ (ghas g Tree i = false -> stored s Tree i).
  Proof.
    intros B HD HT. repeat split.
    - eapply all_indexed_after_lemma; eassumption.
    - eapply all_indexed_after_lemma; eassumption.
    - intro G. apply (stored_iff_lemma g its es s r Data i B). split; assumption.
    - intro G. apply (stored_iff_lemma g its es s r Tree i B). split; assumption.
  Qed.

  (* --- how many copies ------------------------------------------------------------- *)
  Lemma flen_perm {A} (f : A -> bool) l1 l2 : Permutation l1 l2 -> flen f l1 = flen f l2.
  Proof.
    induction 1 as [|x l l' P IH|x y l|l l' l'' P1 IH1 P2 IH2].
    - reflexivity.
    - rewrite !flen_cons, IH. reflexivity.
    - rewrite !flen_cons. lia.
    - congruence.
  Qed.

  Lemma count_sends_perm t i l1 l2 : Permutation l1 l2 -> count_sends t i l1 = count_sends t i l2.
  Proof. intro P. exact (flen_perm _ l1 l2 P). Qed.

  Lemma copies_at_most_occurrences_lemma g its es s r t i :
    backup_run tid g its es s r ->
    cnt i (packs_of t (idx s)) <= if ghas g t i then 0 else count_sends t i (r_all r).
  Proof.
    intros (A & P & R & F).
    pose proof (run_W0 t i es init s R) as H. rewrite W_init in H. cbn [Nat.add] in H.
    rewrite count_send_events_sends, (count_sends_perm t i _ _ P), (sends_count_lemma tid g its r t i A) in H.
    unfold W, copies in H. lia.
  Qed.

  Lemma stored_once_if_unique_lemma g its es s r t i :
    backup_run tid g its es s r -> ghas g t i = false -> count_sends t i (r_all r) = 1 ->
    cnt i (packs_of t (idx s)) = 1.
  Proof.
    intros B G C. pose proof (copies_at_most_occurrences_lemma g its es s r t i B) as U.
    rewrite G, C in U.
    assert (In (t, i) (r_all r)) as Hin.
    { unfold count_sends in C. destruct (filter (fun x => bt_eqb (fst x) t && N.eqb i (snd x)) (r_all r)) as [|[t' i'] l] eqn:E; [discriminate|].
      assert (In (t', i') (filter (fun x => bt_eqb (fst x) t && N.eqb i (snd x)) (r_all r))) as Hf by (rewrite E; left; reflexivity).
      apply filter_In in Hf. destruct Hf as [Hf1 Hf2]. cbn [fst snd] in Hf2. apply andb_true_iff in Hf2.
      destruct Hf2 as [E1 E2]. apply bt_eqb_eq in E1. apply N.eqb_eq in E2. subst. assumption. }
    assert (stored s t i) as S by (apply (stored_iff_lemma g its es s r t i B); split; assumption).
    apply stored_packs_of in S. pose proof (cnt_pos_in i _ S). lia.
  Qed.
End Run.

(* the remaining duplicate window, exactly: from any state in which a copy of (t, i) is
   indexed, the copies that exist at the end of ANY continuation are those that existed plus
   at most the in-flight items that had ALREADY passed the last filter at that moment *)
Lemma duplicate_window_lemma s0 es s t i :
  run s0 es = Some s -> ix_has s0 t i = true -> final s = true ->
  cnt i (packs_of t (idx s)) <= copies s0 t i + stage_ge 4 (get s0 t) i.
Proof.
  intros R IX F. destruct (run_W4 t i es s0 s R IX) as [H _]. unfold W in H.
  rewrite (final_stage_zero 4 s t i F) in H. unfold copies in H. rewrite (final_held_nil s t F) in H.
  unfold copies. cbn [cnt filter length] in H. lia.
Qed.

Lemma duplicate_window_midrun_lemma s0 es s t i :
  run s0 es = Some s -> ix_has s0 t i = true ->
  copies s t i + stage_ge 4 (get s t) i <= copies s0 t i + stage_ge 4 (get s0 t) i.
Proof. intros R IX. destruct (run_W4 t i es s0 s R IX) as [H _]. exact H. Qed.

Lemma at_most_once_per_pack_lemma es s t pk :
  run init es = Some s -> In (t, pk) (written s) \/ In (t, pk) (idx s) -> NoDup pk.
Proof.
  intros R H. pose proof (run_pinv es init s pinv_init R) as (_ & _ & C & D).
  rewrite Forall_forall in C, D. destruct H as [H|H]; [apply (C _ H) | apply (D _ H)].
Qed.

(* ------------------------------------------------------------------ witnesses *)
(* the window is real: the same chunk handed over twice, both copies pass all filters before
   the first pack is indexed -> two packs hold it *)
Definition window_run : list ev :=
  [Send Data 7%N; Send Data 7%N;
   Adv Data 0; Adv Data 0; Adv Data 0; Adv Data 0; Adv Data 1; Adv Data 1; Adv Data 1; Adv Data 1;
   Adv Data 0; Flush Data; WriteP Data; IndexP Data;
   Adv Data 0; Flush Data; WriteP Data; IndexP Data].
Lemma window_inhabited_lemma :
  exists s, run init window_run = Some s /\ final s = true /\ idx s = [(Data, [7%N]); (Data, [7%N])].
Proof. eexists. split; [vm_compute; reflexivity|]. split; reflexivity. Qed.

(* the same two requests when the second meets the last filter after the first pack is indexed *)
Definition no_window_run : list ev :=
  [Send Data 7%N; Send Data 7%N;
   Adv Data 0; Adv Data 0; Adv Data 0; Adv Data 0; Adv Data 1; Adv Data 1; Adv Data 1;
   Adv Data 0; Flush Data; WriteP Data; IndexP Data; Adv Data 0].
Lemma no_window_lemma :
  exists s, run init no_window_run = Some s /\ final s = true /\ idx s = [(Data, [7%N])].
Proof. eexists. split; [vm_compute; reflexivity|]. split; reflexivity. Qed.

(* cross-type collision inside one run (the schedule on which the untyped indexer lost the
   tree: the data pack is indexed before the tree blob meets the first filter): both stored *)
Definition collision_full_run : list ev :=
  [Send Data 7%N; Adv Data 0; Adv Data 0; Adv Data 0; Adv Data 0; Adv Data 0; Flush Data; WriteP Data; IndexP Data;
   Send Tree 7%N; Adv Tree 0; Adv Tree 0; Adv Tree 0; Adv Tree 0; Adv Tree 0; Flush Tree; WriteP Tree; IndexP Tree].
Lemma collision_both_stored_lemma :
  exists s, run init collision_full_run = Some s /\ final s = true /\
            idx s = [(Data, [7%N]); (Tree, [7%N])].
Proof. eexists. split; [vm_compute; reflexivity|]. split; reflexivity. Qed.

(* a small source for the non-vacuity example of `backup_run` *)
Definition ex_items : list item := [NewTree 1 0; Other 2 0 [7; 8]%N; NewTree 3 0; EndTree; EndTree].
Definition ex_tid (es : list entry) : id := N.of_nat (100 + length es).

(* a source in which a file chunk and a tree have the same id (100): the hypotheses of
   typed_identity are satisfiable, and both blobs end up in packs of their own type *)
Definition ex_collision_items : list item := [NewTree 1 0; Other 2 0 [100]%N; NewTree 3 0; EndTree; EndTree].
Definition ex_collision_events : list ev :=
  [Send Data 100%N; Send Tree 100%N; Send Tree 102%N; Send Tree 101%N;
   Adv Data 0; Adv Data 0; Adv Data 0; Adv Data 0; Adv Data 0; Flush Data; WriteP Data; IndexP Data;
   Adv Tree 0; Adv Tree 0; Adv Tree 0; Adv Tree 0; Adv Tree 0;
   Adv Tree 0; Adv Tree 0; Adv Tree 0; Adv Tree 0; Adv Tree 0;
   Adv Tree 0; Adv Tree 0; Adv Tree 0; Adv Tree 0; Adv Tree 0; Flush Tree; WriteP Tree; IndexP Tree].
Lemma typed_identity_inhabited_lemma :
  exists s r, backup_run ex_tid [] ex_collision_items ex_collision_events s r /\
              In (Data, 100%N) (r_all r) /\ In (Tree, 100%N) (r_all r) /\
              idx s = [(Data, [100%N]); (Tree, [100%N; 102%N; 101%N])].
Proof.
  eexists. eexists. split.
  - unfold backup_run. split; [vm_compute; reflexivity|]. split; [apply Permutation_refl|].
    split; [vm_compute; reflexivity | reflexivity].
  - cbn. split; [tauto|]. split; [tauto | reflexivity].
Qed.
