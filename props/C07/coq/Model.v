(* C07 — one backup run at the level of blobs.

   Source after chunking and hashing: the stream of items the archiver receives
   (archiver.rs: TreeIterator -> NewTree / EndTree / Other), every file carrying the list
   of its chunk ids (file_archiver.rs backup_reader: id = hash(chunk)).  Tree blobs get
   their id from an abstract function `tid` of the node list (tree_archiver.rs backup_tree:
   `self.tree.serialize()`); `tid` is a parameter of every definition and universally
   quantified in every theorem.

   The loaded index (GlobalIndex) is a TYPED finite set; `ghas g Data` = has_data,
   `ghas g Tree` = has_tree.  A chunk is handed to the data packer iff
   `data_gate (has_data id)`, a tree to the tree packer iff `tree_gate (has_tree id)`; the
   two gates are regenerated from the source (Extracted.v; `negb` in the unchanged tree).

   What happens to a blob once it is handed to a packer is the transition system of C13
   (imported, not rebuilt): the three filters, the in-flight window, pack flushes, the
   writer thread, the shared indexer.  Here only observers of its states are added:
   how many copies of an id the packer of a type holds / has indexed, and how many
   in-flight items have passed the last filter. *)
From Verif.Base Require Import Tactics.
From Verif.C13 Require Import Extracted Model.
From Verif.C07 Require Import Extracted.
Local Open Scope nat_scope.

(* ------------------------------------------------------------------ loaded index *)
Definition gindex := list (bt * id).
Definition ghas (g : gindex) (t : bt) (i : id) : bool :=
  existsb (fun e => bt_eqb (fst e) t && N.eqb (snd e) i) g.
Definition gate (t : bt) (has : bool) : bool :=
  match t with Data => data_gate has | Tree => tree_gate has end.

(* ------------------------------------------------------------------ archiver *)
Inductive entry :=
| EFile (name meta : N) (content : list id)
| EDir (name meta : N) (subtree : id).

Inductive item :=
| NewTree (name meta : N)
| EndTree
| Other (name meta : N) (chunks : list id).

Record ast := {
  a_tree : list entry;                       (* TreeArchiver.tree *)
  a_stack : list (N * N * list entry);       (* TreeArchiver.stack *)
  a_all : list (bt * id);                    (* history: every blob of the new state, in order *)
  a_sent : list (bt * id)                    (* history: every blob handed to a packer, in order *)
}.

Definition a_init : ast := {| a_tree := []; a_stack := []; a_all := []; a_sent := [] |}.

Section Archiver.
  Variable tid : list entry -> id.
  Variable g : gindex.

  (* `if !self.index.has_X(id) { self.X_packer.add(..) }` *)
  Definition offer (a : ast) (t : bt) (i : id) : ast :=
    {| a_tree := a_tree a; a_stack := a_stack a; a_all := a_all a ++ [(t, i)];
       a_sent := a_sent a ++ (if gate t (ghas g t i) then [(t, i)] else []) |}.

  Definition offer_chunks (a : ast) (cs : list id) : ast :=
    fold_left (fun a c => offer a Data c) cs a.

  Definition set_tree (a : ast) (tr : list entry) (st : list (N * N * list entry)) : ast :=
    {| a_tree := tr; a_stack := st; a_all := a_all a; a_sent := a_sent a |}.

  (* TreeArchiver::add after FileArchiver::process; None = "Tree stack is empty" *)
  Definition astep (a : ast) (it : item) : option ast :=
    match it with
    | NewTree nm m => Some (set_tree a [] ((nm, m, a_tree a) :: a_stack a))
    | EndTree =>
        match a_stack a with
        | [] => None
        | (nm, m, tr) :: st =>
            let i := tid (a_tree a) in
            Some (set_tree (offer a Tree i) (tr ++ [EDir nm m i]) st)
        end
    | Other nm m cs =>
        Some (set_tree (offer_chunks a cs) (a_tree a ++ [EFile nm m cs]) (a_stack a))
    end.

  Fixpoint arun (a : ast) (its : list item) : option ast :=
    match its with
    | [] => Some a
    | it :: r => match astep a it with Some a' => arun a' r | None => None end
    end.

  Record result := { r_root : id; r_all : list (bt * id); r_sent : list (bt * id) }.

  (* Archiver::archive: all items, then TreeArchiver::finalize (root tree) *)
  Definition archive (its : list item) : option result :=
    match arun a_init its with
    | None => None
    | Some a =>
        let i := tid (a_tree a) in
        let a' := offer a Tree i in
        Some {| r_root := i; r_all := a_all a'; r_sent := a_sent a' |}
    end.
End Archiver.

(* the index a fresh Repository handle loads after the run: what was loaded before plus
   the packs the indexer of the run holds (Indexer::finalize writes them to index files) *)
Definition pack_blobs (p : bt * list id) : list (bt * id) := map (fun i => (fst p, i)) (snd p).
Definition reload (g : gindex) (s : st) : gindex := g ++ flat_map pack_blobs (idx s).

(* ------------------------------------------------------------------ observers of the pipeline *)
Definition cnt (i : id) (l : list id) : nat := length (filter (N.eqb i) l).

Definition packs_of (t : bt) (l : list (bt * list id)) : list id :=
  flat_map (fun p => if bt_eqb (fst p) t then snd p else []) l.

(* ids in packs the packer still holds: being assembled, queued for the writer, in the writer's hand *)
Definition held (p : packer) : list id :=
  cur p ++ concat (wq p) ++ match wip p with Some pk => pk | None => [] end.

(* copies of blob (t, i) that are or will be in a pack file of this run *)
Definition copies (s : st) (t : bt) (i : id) : nat :=
  cnt i (held (get s t)) + cnt i (packs_of t (idx s)).

(* in-flight items carrying id i that have reached at least stage k
   (k = 0: all of them; k = 4: those that have passed the last filter) *)
Definition stage_ge (k : nat) (p : packer) (i : id) : nat :=
  length (filter (fun x => N.eqb i (fst x) && (k <=? snd x)) (inflight p)).

Definition count_sends (t : bt) (i : id) (l : list (bt * id)) : nat :=
  length (filter (fun x => bt_eqb (fst x) t && N.eqb i (snd x)) l).

(* ------------------------------------------------------------------ chunk level *)
Definition bytes := list N.

(* chunk ids of all files of an item stream *)
Definition data_of (its : list item) : list id :=
  flat_map (fun it => match it with Other _ _ cs => cs | _ => [] end) its.

(* the file archiver on one file whose chunks are given as byte strings, hashed by `h` *)
Definition file_sends (h : bytes -> id) (g : gindex) (chunks : list bytes) : list id :=
  filter (fun c => gate Data (ghas g Data c)) (map h chunks).

(* a small content-defined chunker for the examples: cut after every zero byte *)
Fixpoint zcut (s : bytes) : list bytes :=
  match s with
  | [] => []
  | b :: r => if N.eqb b 0 then [b] :: zcut r
              else match zcut r with
                   | [] => [[b]]
                   | c :: cs => (b :: c) :: cs
                   end
  end.
