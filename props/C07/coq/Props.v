(* C07 — identical content is stored once; unchanged data adds nothing.
   Property theorems.  `tid` (tree serialisation + hash), the chunker and the chunk hash are
   universally quantified; the pipeline statements hold for EVERY interleaving of the C13
   transition system (a superset of the schedules of the real thread pools). *)
From Verif.Base Require Import Tactics.
From Verif.C06 Require Import Extracted Model Spec.
From Verif.C11 Require Model.
From Verif.C13 Require Import Extracted Model Proofs Proofs2.
From Verif.C07 Require Import Extracted Model Spec Proofs Proofs2 Proofs3 Proofs4 Proofs5 Proofs6 Proofs7 ModelP Proofs8.
Local Open Scope nat_scope.

(* Facts read from the source on every run: the archiver gates are `!has_data` / `!has_tree`,
   the indexer of a run remembers blobs by (type, id). *)
Theorem source_facts : (forall t b, gate t b = negb b) /\ indexer_typed = true.
Proof. split; [exact gate_negb | exact indexer_is_typed]. Qed.
Print Assumptions source_facts.

(* What the archiver hands to the packers is, in order, the blob list of the new state minus
   what the loaded TYPED index has ... *)
Theorem sent_is_filter : forall tid g its r,
  archive tid g its = Some r ->
  r_sent r = filter (fun x => negb (ghas g (fst x) (snd x))) (r_all r).
Proof. exact sent_is_filter_lemma. Qed.
Print Assumptions sent_is_filter.

(* ... and tree id and blob list do not depend on the index at all. *)
Theorem archive_index_independent : forall tid g1 g2 its r1,
  archive tid g1 its = Some r1 ->
  exists r2, archive tid g2 its = Some r2 /\ r_root r2 = r_root r1 /\ r_all r2 = r_all r1.
Proof. exact archive_index_independent_lemma. Qed.
Print Assumptions archive_index_independent.

(* UPLOADS EXACTLY NEW.  For every complete backup run: the set of (type, id) handed to the
   packers = the set stored in the packs of the run = ids of the new state minus ids in the
   loaded typed index. *)
Theorem uploads_exactly_new : forall tid g its es s r t i,
  backup_run tid g its es s r ->
  (In (t, i) (sends es) <-> In (t, i) (r_all r) /\ ghas g t i = false) /\
  (stored s t i <-> In (t, i) (r_all r) /\ ghas g t i = false).
Proof.
  intros. split; [eapply handed_iff_lemma | eapply stored_iff_lemma]; eassumption.
Qed.
Print Assumptions uploads_exactly_new.

(* REBACKUP ADDS NOTHING.  A second backup of the same source against the reloaded index hands
   NO blob to the packers and yields the same tree id (and references the same blobs). *)
Theorem rebackup_adds_nothing : forall tid g its es s r,
  backup_run tid g its es s r ->
  exists r', archive tid (reload g s) its = Some r' /\ r_sent r' = [] /\
             r_root r' = r_root r /\ r_all r' = r_all r.
Proof. exact rebackup_adds_nothing_lemma. Qed.
Print Assumptions rebackup_adds_nothing.

(* Any source all of whose blobs the loaded index has (content shared with earlier snapshots,
   duplicated or moved files) adds nothing ... *)
Theorem covered_adds_nothing : forall tid g its r,
  archive tid g its = Some r ->
  (forall t i, In (t, i) (r_all r) -> ghas g t i = true) -> r_sent r = [].
Proof. exact covered_adds_nothing_lemma. Qed.
Print Assumptions covered_adds_nothing.

(* ... and the next backup of ANY source hands over only blobs that neither the previous source
   nor the previously loaded index contained. *)
Theorem next_backup_uploads_only_unseen : forall tid g its1 es s r1 its2 r2 t i,
  backup_run tid g its1 es s r1 -> archive tid (reload g s) its2 = Some r2 ->
  In (t, i) (r_sent r2) ->
  In (t, i) (r_all r2) /\ ~ In (t, i) (r_all r1) /\ ghas g t i = false.
Proof. exact next_backup_uploads_only_unseen_lemma. Qed.
Print Assumptions next_backup_uploads_only_unseen.

(* After a complete run every blob of the new state is found under its own type. *)
Theorem all_indexed_after_backup : forall tid g its es s r t i,
  backup_run tid g its es s r -> In (t, i) (r_all r) -> ghas (reload g s) t i = true.
Proof. exact all_indexed_after_lemma. Qed.
Print Assumptions all_indexed_after_backup.

(* TYPED IDENTITY.  A tree and a file chunk with equal bytes (equal ids) are both kept, within
   one run and across runs, for every interleaving. *)
Theorem typed_identity : forall tid g its es s r i,
  backup_run tid g its es s r -> In (Data, i) (r_all r) -> In (Tree, i) (r_all r) ->
  ghas (reload g s) Data i = true /\ ghas (reload g s) Tree i = true /\
  (ghas g Data i = false -> stored s Data i) /\ (ghas g Tree i = false -> stored s Tree i).
Proof. exact typed_identity_lemma. Qed.
Print Assumptions typed_identity.

(* AT MOST ONCE PER PACK: no pack file holds an id twice, at any moment of any run. *)
Theorem at_most_once_per_pack : forall es s t pk,
  run init es = Some s -> In (t, pk) (written s) \/ In (t, pk) (idx s) -> NoDup pk.
Proof. exact at_most_once_per_pack_lemma. Qed.
Print Assumptions at_most_once_per_pack.

(* The number of stored copies of a blob is at most the number of times it occurs in the new
   data (0 if the loaded index has it) ... *)
Theorem copies_at_most_occurrences : forall tid g its es s r t i,
  backup_run tid g its es s r ->
  cnt i (packs_of t (idx s)) <= if ghas g t i then 0 else count_sends t i (r_all r).
Proof. exact copies_at_most_occurrences_lemma. Qed.
Print Assumptions copies_at_most_occurrences.

(* ... so a new blob that occurs once is stored exactly once. *)
Theorem stored_once_if_unique : forall tid g its es s r t i,
  backup_run tid g its es s r -> ghas g t i = false -> count_sends t i (r_all r) = 1 ->
  cnt i (packs_of t (idx s)) = 1.
Proof. exact stored_once_if_unique_lemma. Qed.
Print Assumptions stored_once_if_unique.

(* THE REMAINING DUPLICATE WINDOW, exactly.  From ANY state in which a copy of (t, i) is indexed,
   at every later moment of ANY continuation: copies + in-flight items past the last filter do
   not exceed what they were then.  A further copy is therefore written only by an item that had
   passed all filters before the first copy's pack was indexed. *)
Theorem duplicate_window : forall s0 es s t i,
  run s0 es = Some s -> ix_has s0 t i = true ->
  copies s t i + stage_ge 4 (get s t) i <= copies s0 t i + stage_ge 4 (get s0 t) i.
Proof. exact duplicate_window_midrun_lemma. Qed.
Print Assumptions duplicate_window.

Theorem duplicate_window_final : forall s0 es s t i,
  run s0 es = Some s -> ix_has s0 t i = true -> final s = true ->
  cnt i (packs_of t (idx s)) <= copies s0 t i + stage_ge 4 (get s0 t) i.
Proof. exact duplicate_window_lemma. Qed.
Print Assumptions duplicate_window_final.

(* EDIT LOCALITY over an abstract content-defined chunker (hypotheses: lossless partition into
   non-empty chunks; cut points depend only on the bytes since the previous cut).  Old file =
   concat pre ++ P' ++ X ++ S1 ++ S2, new file = the same with Y for X; `pre` are chunks of the old
   file that end at or before the edit, S1|S2 is a place behind the edit where both files have a
   cut.  The chunk lists differ only between these two cuts ... *)
Theorem edit_locality : forall chunker,
  chunker_partition chunker -> resync_after_common_cut chunker ->
  forall pre P' X Y S1 S2 rest la ra lb rb,
  let A := concat pre ++ P' ++ X ++ S1 ++ S2 in
  let B := concat pre ++ P' ++ Y ++ S1 ++ S2 in
  chunker A = pre ++ rest -> P' ++ X ++ S1 ++ S2 <> [] ->
  chunker A = la ++ ra -> concat la = concat pre ++ P' ++ X ++ S1 ->
  chunker B = lb ++ rb -> concat lb = concat pre ++ P' ++ Y ++ S1 ->
  exists ma mb,
    chunker A = pre ++ ma ++ chunker S2 /\ chunker B = pre ++ mb ++ chunker S2 /\
    concat ma = P' ++ X ++ S1 /\ concat mb = P' ++ Y ++ S1.
Proof. exact edit_locality_lemma. Qed.
Print Assumptions edit_locality.

(* ... so, against an index that has the old file's chunks, only chunks between the last cut
   before the edit and the first common cut after it are handed to the packer. *)
Theorem edit_uploads_only_disturbed : forall chunker,
  chunker_partition chunker -> resync_after_common_cut chunker ->
  forall (h : bytes -> id) (g : gindex) pre P' X Y S1 S2 rest la ra lb rb,
  let A := concat pre ++ P' ++ X ++ S1 ++ S2 in
  let B := concat pre ++ P' ++ Y ++ S1 ++ S2 in
  chunker A = pre ++ rest -> P' ++ X ++ S1 ++ S2 <> [] ->
  chunker A = la ++ ra -> concat la = concat pre ++ P' ++ X ++ S1 ->
  chunker B = lb ++ rb -> concat lb = concat pre ++ P' ++ Y ++ S1 ->
  (forall c, In c (chunker A) -> ghas g Data (h c) = true) ->
  exists mb, chunker B = pre ++ mb ++ chunker S2 /\ concat mb = P' ++ Y ++ S1 /\
             forall i, In i (file_sends h g (chunker B)) -> In i (map h mb).
Proof. exact edit_uploads_only_disturbed_lemma. Qed.
Print Assumptions edit_uploads_only_disturbed.

(* ... and at the level of a whole backup: one file of the source edited, all other files and the
   old version already indexed: the only DATA blobs handed to the packer are chunks between the cuts *)
Theorem edit_backup_uploads_only_disturbed : forall chunker,
  chunker_partition chunker -> resync_after_common_cut chunker ->
  forall (tid : list entry -> id) (h : bytes -> id) (g : gindex)
         pre P' X Y S1 S2 rest la ra lb rb its1 its2 nm m r,
  let A := concat pre ++ P' ++ X ++ S1 ++ S2 in
  let B := concat pre ++ P' ++ Y ++ S1 ++ S2 in
  chunker A = pre ++ rest -> P' ++ X ++ S1 ++ S2 <> [] ->
  chunker A = la ++ ra -> concat la = concat pre ++ P' ++ X ++ S1 ->
  chunker B = lb ++ rb -> concat lb = concat pre ++ P' ++ Y ++ S1 ->
  (forall c, In c (chunker A) -> ghas g Data (h c) = true) ->
  (forall c, In c (data_of (its1 ++ its2)) -> ghas g Data c = true) ->
  archive tid g (its1 ++ Other nm m (map h (chunker B)) :: its2) = Some r ->
  exists mb, chunker B = pre ++ mb ++ chunker S2 /\ concat mb = P' ++ Y ++ S1 /\
             forall c, In (Data, c) (r_sent r) -> In c (map h mb).
Proof. exact edit_backup_uploads_only_disturbed_lemma. Qed.
Print Assumptions edit_backup_uploads_only_disturbed.

(* the chunk-level `file_sends` above is what the archiver hands over when it processes that file *)
Theorem file_step_sends : forall tid g a nm m (h : bytes -> id) (chunks : list bytes) a',
  astep tid g a (Other nm m (map h chunks)) = Some a' ->
  a_sent a' = a_sent a ++ map (fun c => (Data, c)) (file_sends h g chunks).
Proof. exact file_step_sends_lemma. Qed.
Print Assumptions file_step_sends.

(* ================================================================== the REAL chunkers (C06)
   C06 proves that the ChunkIter model (rabin.rs statement by statement: read buffer, window
   prefill, rolling hash) yields `cuts p s` for every read schedule, size hint and arithmetic mode
   when the parameters pass check_rabin_params.  Here the two abstract hypotheses are discharged
   for `cuts p` ... *)
Theorem rabin_chunker_meets_hypotheses : forall p, params_ok p = true ->
  chunker_partition (cuts p) /\ resync_after_common_cut (cuts p).
Proof. intros p H. split; [exact (rabin_partition p H) | exact (rabin_resync p H)]. Qed.
Print Assumptions rabin_chunker_meets_hypotheses.

(* ... so for ACCEPTED Rabin parameters, any polynomial and EVERY pair of read schedules: the chunk
   lists the iterator produces for the old and the edited file differ only between the last cut
   before the edit and the first common cut after it ... *)
Theorem edit_locality_rabin : forall P avg mn mx, rabin_accepts avg mn mx = true ->
  let p := {| c_poly := P; c_avg := avg; c_min := mn; c_max := mx |} in
  forall md1 hint1 sched1 md2 hint2 sched2 pre P' X Y S1 S2 rest la ra lb rb ca cb,
  let A := concat pre ++ P' ++ X ++ S1 ++ S2 in
  let B := concat pre ++ P' ++ Y ++ S1 ++ S2 in
  chunks_impl md1 p hint1 A sched1 = Ok ca -> chunks_impl md2 p hint2 B sched2 = Ok cb ->
  ca = pre ++ rest -> P' ++ X ++ S1 ++ S2 <> [] ->
  ca = la ++ ra -> concat la = concat pre ++ P' ++ X ++ S1 ->
  cb = lb ++ rb -> concat lb = concat pre ++ P' ++ Y ++ S1 ->
  exists ma mb suf,
    ca = pre ++ ma ++ suf /\ cb = pre ++ mb ++ suf /\
    concat ma = P' ++ X ++ S1 /\ concat mb = P' ++ Y ++ S1 /\
    forall md hint sched, chunks_impl md p hint S2 sched = Ok suf.
Proof.
  intros P avg mn mx H p. exact (edit_locality_rabin_lemma p (Verif.C06.Proofs4.accepted_params_ok_lemma P avg mn mx H)).
Qed.
Print Assumptions edit_locality_rabin.

(* ... only those chunks are handed to the data packer ... *)
Theorem edit_uploads_only_disturbed_rabin : forall P avg mn mx, rabin_accepts avg mn mx = true ->
  let p := {| c_poly := P; c_avg := avg; c_min := mn; c_max := mx |} in
  forall (h : list N -> N) (g : gindex) md1 hint1 sched1 md2 hint2 sched2 pre P' X Y S1 S2 rest la ra lb rb ca cb,
  let A := concat pre ++ P' ++ X ++ S1 ++ S2 in
  let B := concat pre ++ P' ++ Y ++ S1 ++ S2 in
  chunks_impl md1 p hint1 A sched1 = Ok ca -> chunks_impl md2 p hint2 B sched2 = Ok cb ->
  ca = pre ++ rest -> P' ++ X ++ S1 ++ S2 <> [] ->
  ca = la ++ ra -> concat la = concat pre ++ P' ++ X ++ S1 ->
  cb = lb ++ rb -> concat lb = concat pre ++ P' ++ Y ++ S1 ->
  (forall c, In c ca -> ghas g Data (h c) = true) ->
  exists mb suf, cb = pre ++ mb ++ suf /\ concat mb = P' ++ Y ++ S1 /\
                 forall i, In i (file_sends h g cb) -> In i (map h mb).
Proof.
  intros P avg mn mx H p. exact (edit_uploads_only_disturbed_rabin_lemma p (Verif.C06.Proofs4.accepted_params_ok_lemma P avg mn mx H)).
Qed.
Print Assumptions edit_uploads_only_disturbed_rabin.

(* ... and in a whole backup in which this one file changed, no other DATA blob is handed over. *)
Theorem edit_backup_uploads_only_disturbed_rabin : forall P avg mn mx, rabin_accepts avg mn mx = true ->
  let p := {| c_poly := P; c_avg := avg; c_min := mn; c_max := mx |} in
  forall (tid : list entry -> N) (h : list N -> N) (g : gindex)
         md1 hint1 sched1 md2 hint2 sched2 pre P' X Y S1 S2 rest la ra lb rb ca cb its1 its2 nm m r,
  let A := concat pre ++ P' ++ X ++ S1 ++ S2 in
  let B := concat pre ++ P' ++ Y ++ S1 ++ S2 in
  chunks_impl md1 p hint1 A sched1 = Ok ca -> chunks_impl md2 p hint2 B sched2 = Ok cb ->
  ca = pre ++ rest -> P' ++ X ++ S1 ++ S2 <> [] ->
  ca = la ++ ra -> concat la = concat pre ++ P' ++ X ++ S1 ->
  cb = lb ++ rb -> concat lb = concat pre ++ P' ++ Y ++ S1 ->
  (forall c, In c ca -> ghas g Data (h c) = true) ->
  (forall c, In c (data_of (its1 ++ its2)) -> ghas g Data c = true) ->
  archive tid g (its1 ++ Other nm m (map h cb) :: its2) = Some r ->
  exists mb suf, cb = pre ++ mb ++ suf /\ concat mb = P' ++ Y ++ S1 /\
                 forall c, In (Data, c) (r_sent r) -> In c (map h mb).
Proof.
  intros P avg mn mx H p. exact (edit_backup_uploads_only_disturbed_rabin_lemma p (Verif.C06.Proofs4.accepted_params_ok_lemma P avg mn mx H)).
Qed.
Print Assumptions edit_backup_uploads_only_disturbed_rabin.

(* the hypotheses are satisfiable with real parameters (restic's documented polynomial, min = avg =
   4096, max = 8192): three chunks, one byte of the middle one overwritten, first and last kept *)
Theorem edit_locality_rabin_inhabited :
  params_ok rp = true /\
  cuts rp (concat [rz] ++ repeat 0%N 1904 ++ [0%N] ++ repeat 0%N 2191 ++ rz) = [rz] ++ [rm_old] ++ [rz] /\
  cuts rp (concat [rz] ++ repeat 0%N 1904 ++ [1%N] ++ repeat 0%N 2191 ++ rz) = [rz] ++ [rm_new] ++ [rz].
Proof. exact rabin_example_lemma. Qed.
Print Assumptions edit_locality_rabin_inhabited.

(* FIXED-SIZE chunker: its cuts depend on the NUMBER of bytes since the previous cut only, so it
   meets the two hypotheses and the general theorem applies (a common cut behind the edit exists
   where the alignment of both files agrees; the end of the file always is one) ... *)
Theorem fixed_chunker_meets_hypotheses : forall size, fixed_accepts size = true ->
  chunker_partition (fixed_cuts size) /\ resync_after_common_cut (fixed_cuts size).
Proof.
  intros size H. pose proof (Verif.C06.Proofs4.accepted_fixed_size_pos size H) as Hs.
  split; [exact (fixed_partition size Hs) | exact (fixed_resync size Hs)].
Qed.
Print Assumptions fixed_chunker_meets_hypotheses.

Theorem edit_locality_fixed : forall size, fixed_accepts size = true ->
  forall hint1 sched1 hint2 sched2 pre P' X Y S1 S2 rest la ra lb rb ca cb,
  let A := concat pre ++ P' ++ X ++ S1 ++ S2 in
  let B := concat pre ++ P' ++ Y ++ S1 ++ S2 in
  fixed_impl size hint1 A sched1 = Some ca -> fixed_impl size hint2 B sched2 = Some cb ->
  ca = pre ++ rest -> P' ++ X ++ S1 ++ S2 <> [] ->
  ca = la ++ ra -> concat la = concat pre ++ P' ++ X ++ S1 ->
  cb = lb ++ rb -> concat lb = concat pre ++ P' ++ Y ++ S1 ->
  exists ma mb suf,
    ca = pre ++ ma ++ suf /\ cb = pre ++ mb ++ suf /\
    concat ma = P' ++ X ++ S1 /\ concat mb = P' ++ Y ++ S1 /\
    forall hint sched, fixed_impl size hint S2 sched = Some suf.
Proof.
  intros size H. exact (edit_locality_fixed_lemma size (Verif.C06.Proofs4.accepted_fixed_size_pos size H)).
Qed.
Print Assumptions edit_locality_fixed.

(* ... OVERWRITE and APPEND keep the alignment: with u = the whole chunks before the edit and m / m'
   the equally long middle (rest of the chunk the edit starts in, the edit, up to the next multiple
   of the chunk size - or everything up to the end of the file), exactly the chunks of the middle
   are replaced ... *)
Theorem fixed_size_overwrite_local : forall size, fixed_accepts size = true ->
  forall k j (u m m' v : list N) hint1 sched1 hint2 sched2,
  nlen u = (N.of_nat k * size)%N -> nlen m = nlen m' -> (nlen m = (N.of_nat j * size)%N \/ v = []) ->
  fixed_impl size hint1 (u ++ m ++ v) sched1 = Some (fixed_cuts size u ++ fixed_cuts size m ++ fixed_cuts size v) /\
  fixed_impl size hint2 (u ++ m' ++ v) sched2 = Some (fixed_cuts size u ++ fixed_cuts size m' ++ fixed_cuts size v) /\
  concat (fixed_cuts size m) = m /\ concat (fixed_cuts size m') = m'.
Proof.
  intros size H. exact (fixed_size_overwrite_local_impl_lemma size (Verif.C06.Proofs4.accepted_fixed_size_pos size H)).
Qed.
Print Assumptions fixed_size_overwrite_local.

(* ... whereas an INSERT or DELETE whose length is not a multiple of the chunk size shifts every
   later boundary (no common cut but the end): one byte in front, all four chunks change. *)
Theorem fixed_size_insert_shifts :
  fixed_cuts 2 [1;2;3;4;5;6;7]%N = [[1;2];[3;4];[5;6];[7]]%N /\
  fixed_cuts 2 [9;1;2;3;4;5;6;7]%N = [[9;1];[2;3];[4;5];[6;7]]%N.
Proof. exact fixed_size_insert_shifts_lemma. Qed.
Print Assumptions fixed_size_insert_shifts.

(* ================================================================== index entries are backed by pack files
   The writer thread of C13's transition system uploads a pack (WriteP) and only then hands it to the
   indexer (IndexP); the order of `write_bytes` and `indexer.add` is regenerated from
   FileWriterHandle::process / index and Actor::new on every run. *)
Theorem writer_order_matches_source : pack_written_before_indexed = true.
Proof. exact writer_order_lemma. Qed.
Print Assumptions writer_order_matches_source.

(* every pack the indexer of a run holds - at every moment of every interleaving - is a pack file
   that was written before ... *)
Theorem indexed_implies_written : forall es s t pk,
  run init es = Some s -> In (t, pk) (idx s) -> In (t, pk) (written s).
Proof. exact indexed_implies_written_lemma. Qed.
Print Assumptions indexed_implies_written.

(* ... so "the reloaded index has the blob" means: the loaded index had it, or it lies in a written
   pack - the premise on which skipping a chunk (`!has_data`) is sound. *)
Theorem reloaded_index_is_backed : forall g es s t i,
  run init es = Some s -> In (t, i) (reload g s) ->
  In (t, i) g \/ exists pk, In (t, pk) (written s) /\ In i pk.
Proof. exact reload_backed_lemma. Qed.
Print Assumptions reloaded_index_is_backed.

(* ================================================================== parent-based backups (C11)
   `archive_p`: a file whose parent node matched is not read and nothing is offered for it; a tree
   equal to its matched parent's subtree takes C11's unchanged-tree short-cut.  If reused content is
   in the index, the result - tree id, blob list AND what is handed to the packers - is that of the
   backup that reads every file ... *)
Theorem parent_based_archive_equals_full : forall tid g rootpar pits,
  reuse_indexed g pits -> archive_p tid g rootpar pits = archive tid g (map erase pits).
Proof. exact parent_archive_equals_full_lemma. Qed.
Print Assumptions parent_based_archive_equals_full.

(* ... the premise is what C11's Parent::process guarantees when its index is the loaded index ... *)
Theorem reused_content_is_indexed : forall o g P nd P' nd' u,
  Verif.C11.Model.process_other o (fun c => ghas g Data c) P nd = (P', nd', PMatched u) ->
  forall c, In c (Verif.C11.Model.content_ids nd') -> ghas g Data c = true.
Proof. exact reused_content_is_indexed_lemma. Qed.
Print Assumptions reused_content_is_indexed.

(* ... hence uploads_exactly_new for parent-based backups ... *)
Theorem uploads_exactly_new_parent_based : forall tid g rootpar pits es s r t i,
  reuse_indexed g pits -> archive_p tid g rootpar pits = Some r ->
  Permutation (sends es) (r_sent r) -> run init es = Some s -> final s = true ->
  (In (t, i) (sends es) <-> In (t, i) (r_all r) /\ ghas g t i = false) /\
  (stored s t i <-> In (t, i) (r_all r) /\ ghas g t i = false).
Proof. exact uploads_exactly_new_parent_based_lemma. Qed.
Print Assumptions uploads_exactly_new_parent_based.

(* ... and rebackup_adds_nothing under ANY parent classification of the same source. *)
Theorem rebackup_adds_nothing_parent_based : forall tid g rootpar pits es s r,
  reuse_indexed g pits -> archive_p tid g rootpar pits = Some r ->
  Permutation (sends es) (r_sent r) -> run init es = Some s -> final s = true ->
  forall rootpar' pits', map erase pits' = map erase pits ->
  exists r', archive_p tid (reload g s) rootpar' pits' = Some r' /\ r_sent r' = [] /\
             r_root r' = r_root r /\ r_all r' = r_all r.
Proof. exact rebackup_parent_based_lemma. Qed.
Print Assumptions rebackup_adds_nothing_parent_based.

Theorem parent_based_inhabited :
  reuse_indexed ex_pindex ex_pitems /\
  archive_p ex_tid ex_pindex PNotFound ex_pitems = archive ex_tid ex_pindex (map erase ex_pitems) /\
  option_map r_sent (archive_p ex_tid ex_pindex PNotFound ex_pitems) = Some [(Data, 9%N); (Tree, 103%N); (Tree, 101%N)].
Proof. exact parent_example_lemma. Qed.
Print Assumptions parent_based_inhabited.

(* ------------------------------------------------------------------ non-vacuity *)
(* the chunker hypotheses are satisfiable by a content-defined chunker (cut after a zero byte) *)
Theorem chunker_hypotheses_satisfiable : chunker_partition zcut /\ resync_after_common_cut zcut.
Proof. split; [exact zcut_partition | exact zcut_resync]. Qed.
Print Assumptions chunker_hypotheses_satisfiable.

(* the duplicate window is real, and closes as soon as the first pack is indexed *)
Theorem duplicate_window_inhabited :
  (exists s, run init window_run = Some s /\ final s = true /\ idx s = [(Data, [7%N]); (Data, [7%N])]) /\
  (exists s, run init no_window_run = Some s /\ final s = true /\ idx s = [(Data, [7%N])]).
Proof. split; [exact window_inhabited_lemma | exact no_window_lemma]. Qed.
Print Assumptions duplicate_window_inhabited.

(* the schedule on which the untyped indexer lost the tree blob now stores both *)
Theorem collision_both_stored :
  exists s, run init collision_full_run = Some s /\ final s = true /\
            idx s = [(Data, [7%N]); (Tree, [7%N])].
Proof. exact collision_both_stored_lemma. Qed.
Print Assumptions collision_both_stored.

(* the hypotheses of typed_identity are satisfiable: a chunk and a tree with the same id in one source *)
Theorem typed_identity_inhabited :
  exists s r, backup_run ex_tid [] ex_collision_items ex_collision_events s r /\
              In (Data, 100%N) (r_all r) /\ In (Tree, 100%N) (r_all r) /\
              idx s = [(Data, [100%N]); (Tree, [100%N; 102%N; 101%N])].
Proof. exact typed_identity_inhabited_lemma. Qed.
Print Assumptions typed_identity_inhabited.

(* a complete backup run exists: a directory with one two-chunk file and an empty directory,
   chunk 7 already in the index *)
Theorem backup_run_inhabited :
  exists es s r, backup_run ex_tid [(Data, 7%N)] ex_items es s r /\
                 r_sent r = [(Data, 8%N); (Tree, 100%N); (Tree, 102%N); (Tree, 101%N)].
Proof.
  exists ([Send Data 8%N; Send Tree 100%N; Send Tree 102%N; Send Tree 101%N;
           Adv Data 0; Adv Data 0; Adv Data 0; Adv Data 0; Adv Data 0; Flush Data; WriteP Data; IndexP Data]
          ++ [Adv Tree 0; Adv Tree 0; Adv Tree 0; Adv Tree 0; Adv Tree 0;
              Adv Tree 0; Adv Tree 0; Adv Tree 0; Adv Tree 0; Adv Tree 0;
              Adv Tree 0; Adv Tree 0; Adv Tree 0; Adv Tree 0; Adv Tree 0; Flush Tree; WriteP Tree; IndexP Tree]).
  eexists. eexists. split.
  - unfold backup_run. split; [vm_compute; reflexivity|]. split; [apply Permutation_refl|].
    split; [vm_compute; reflexivity | reflexivity].
  - reflexivity.
Qed.
Print Assumptions backup_run_inhabited.
