(* C07 — identical content is stored once; unchanged data adds nothing.
   Property theorems.  `tid` (tree serialisation + hash), the chunker and the chunk hash are
   universally quantified; the pipeline statements hold for EVERY interleaving of the C13
   transition system (a superset of the schedules of the real thread pools). *)
From Verif.Base Require Import Tactics.
From Verif.C13 Require Import Extracted Model Proofs Proofs2.
From Verif.C07 Require Import Extracted Model Spec Proofs Proofs2 Proofs3 Proofs4.
Local Open Scope nat_scope.

(* Facts read from the source on every run: the archiver gates are `!has_data` / `!has_tree`,
   the indexer of a run remembers blobs by (type, id). *)
Theorem source_facts : (forall t b, gate t b = negb b) /\ indexer_typed = true.
Proof. split; [exact gate_negb | exact indexer_is_typed]. Qed.
Print Assumptions source_facts.

(* What the archiver hands to the packers is, in order, the blob list of the new state minus
   what the loaded TYPED index has ... *)
Theorem sent_is_filter : forall tid g its r,
  archive tid g its = Some r ->
  r_sent r = filter (fun x => negb (ghas g (fst x) (snd x))) (r_all r).
Proof. exact sent_is_filter_lemma. Qed.
Print Assumptions sent_is_filter.

(* ... and tree id and blob list do not depend on the index at all. *)
Theorem archive_index_independent : forall tid g1 g2 its r1,
  archive tid g1 its = Some r1 ->
  exists r2, archive tid g2 its = Some r2 /\ r_root r2 = r_root r1 /\ r_all r2 = r_all r1.
Proof. exact archive_index_independent_lemma. Qed.
Print Assumptions archive_index_independent.

(* UPLOADS EXACTLY NEW.  For every complete backup run: the set of (type, id) handed to the
   packers = the set stored in the packs of the run = ids of the new state minus ids in the
   loaded typed index. *)
Theorem uploads_exactly_new : forall tid g its es s r t i,
  backup_run tid g its es s r ->
  (In (t, i) (sends es) <-> In (t, i) (r_all r) /\ ghas g t i = false) /\
  (stored s t i <-> In (t, i) (r_all r) /\ ghas g t i = false).
Proof.
  intros. split; [eapply handed_iff_lemma | eapply stored_iff_lemma]; eassumption.
Qed.
Print Assumptions uploads_exactly_new.

(* REBACKUP ADDS NOTHING.  A second backup of the same source against the reloaded index hands
   NO blob to the packers and yields the same tree id (and references the same blobs). *)
Theorem rebackup_adds_nothing : forall tid g its es s r,
  backup_run tid g its es s r ->
  exists r', archive tid (reload g s) its = Some r' /\ r_sent r' = [] /\
             r_root r' = r_root r /\ r_all r' = r_all r.
Proof. exact rebackup_adds_nothing_lemma. Qed.
Print Assumptions rebackup_adds_nothing.

(* Any source all of whose blobs the loaded index has (content shared with earlier snapshots,
   duplicated or moved files) adds nothing ... *)
Theorem covered_adds_nothing : forall tid g its r,
  archive tid g its = Some r ->
  (forall t i, In (t, i) (r_all r) -> ghas g t i = true) -> r_sent r = [].
Proof. exact covered_adds_nothing_lemma. Qed.
Print Assumptions covered_adds_nothing.

(* ... and the next backup of ANY source hands over only blobs that neither the previous source
   nor the previously loaded index contained. *)
Theorem next_backup_uploads_only_unseen : forall tid g its1 es s r1 its2 r2 t i,
  backup_run tid g its1 es s r1 -> archive tid (reload g s) its2 = Some r2 ->
  In (t, i) (r_sent r2) ->
  In (t, i) (r_all r2) /\ ~ In (t, i) (r_all r1) /\ ghas g t i = false.
Proof. exact next_backup_uploads_only_unseen_lemma. Qed.
Print Assumptions next_backup_uploads_only_unseen.

(* After a complete run every blob of the new state is found under its own type. *)
Theorem all_indexed_after_backup : forall tid g its es s r t i,
  backup_run tid g its es s r -> In (t, i) (r_all r) -> ghas (reload g s) t i = true.
Proof. exact all_indexed_after_lemma. Qed.
Print Assumptions all_indexed_after_backup.

(* TYPED IDENTITY.  A tree and a file chunk with equal bytes (equal ids) are both kept, within
   one run and across runs, for every interleaving. *)
Theorem typed_identity : forall tid g its es s r i,
  backup_run tid g its es s r -> In (Data, i) (r_all r) -> In (Tree, i) (r_all r) ->
  ghas (reload g s) Data i = true /\ ghas (reload g s) Tree i = true /\
  (ghas g Data i = false -> stored s Data i) /\ (ghas g Tree i = false -> stored s Tree i).
Proof. exact typed_identity_lemma. Qed.
Print Assumptions typed_identity.

(* AT MOST ONCE PER PACK: no pack file holds an id twice, at any moment of any run. *)
Theorem at_most_once_per_pack : forall es s t pk,
  run init es = Some s -> In (t, pk) (written s) \/ In (t, pk) (idx s) -> NoDup pk.
Proof. exact at_most_once_per_pack_lemma. Qed.
Print Assumptions at_most_once_per_pack.

(* The number of stored copies of a blob is at most the number of times it occurs in the new
   data (0 if the loaded index has it) ... *)
Theorem copies_at_most_occurrences : forall tid g its es s r t i,
  backup_run tid g its es s r ->
  cnt i (packs_of t (idx s)) <= if ghas g t i then 0 else count_sends t i (r_all r).
Proof. exact copies_at_most_occurrences_lemma. Qed.
Print Assumptions copies_at_most_occurrences.

(* ... so a new blob that occurs once is stored exactly once. *)
Theorem stored_once_if_unique : forall tid g its es s r t i,
  backup_run tid g its es s r -> ghas g t i = false -> count_sends t i (r_all r) = 1 ->
  cnt i (packs_of t (idx s)) = 1.
Proof. exact stored_once_if_unique_lemma. Qed.
Print Assumptions stored_once_if_unique.

(* THE REMAINING DUPLICATE WINDOW, exactly.  From ANY state in which a copy of (t, i) is indexed,
   at every later moment of ANY continuation: copies + in-flight items past the last filter do
   not exceed what they were then.  A further copy is therefore written only by an item that had
   passed all filters before the first copy's pack was indexed. *)
Theorem duplicate_window : forall s0 es s t i,
  run s0 es = Some s -> ix_has s0 t i = true ->
  copies s t i + stage_ge 4 (get s t) i <= copies s0 t i + stage_ge 4 (get s0 t) i.
Proof. exact duplicate_window_midrun_lemma. Qed.
Print Assumptions duplicate_window.

Theorem duplicate_window_final : forall s0 es s t i,
  run s0 es = Some s -> ix_has s0 t i = true -> final s = true ->
  cnt i (packs_of t (idx s)) <= copies s0 t i + stage_ge 4 (get s0 t) i.
Proof. exact duplicate_window_lemma. Qed.
Print Assumptions duplicate_window_final.

(* EDIT LOCALITY over an abstract content-defined chunker (hypotheses: lossless partition into
   non-empty chunks; cut points depend only on the bytes since the previous cut).  Old file =
   concat pre ++ P' ++ X ++ S1 ++ S2, new file = the same with Y for X; `pre` are chunks of the old
   file that end at or before the edit, S1|S2 is a place behind the edit where both files have a
   cut.  The chunk lists differ only between these two cuts ... *)
Theorem edit_locality : forall chunker,
  chunker_partition chunker -> resync_after_common_cut chunker ->
  forall pre P' X Y S1 S2 rest la ra lb rb,
  let A := concat pre ++ P' ++ X ++ S1 ++ S2 in
  let B := concat pre ++ P' ++ Y ++ S1 ++ S2 in
  chunker A = pre ++ rest -> P' ++ X ++ S1 ++ S2 <> [] ->
  chunker A = la ++ ra -> concat la = concat pre ++ P' ++ X ++ S1 ->
  chunker B = lb ++ rb -> concat lb = concat pre ++ P' ++ Y ++ S1 ->
  exists ma mb,
    chunker A = pre ++ ma ++ chunker S2 /\ chunker B = pre ++ mb ++ chunker S2 /\
    concat ma = P' ++ X ++ S1 /\ concat mb = P' ++ Y ++ S1.
Proof. exact edit_locality_lemma. Qed.
Print Assumptions edit_locality.

(* ... so, against an index that has the old file's chunks, only chunks between the last cut
   before the edit and the first common cut after it are handed to the packer. *)
Theorem edit_uploads_only_disturbed : forall chunker,
  chunker_partition chunker -> resync_after_common_cut chunker ->
  forall (h : bytes -> id) (g : gindex) pre P' X Y S1 S2 rest la ra lb rb,
  let A := concat pre ++ P' ++ X ++ S1 ++ S2 in
  let B := concat pre ++ P' ++ Y ++ S1 ++ S2 in
  chunker A = pre ++ rest -> P' ++ X ++ S1 ++ S2 <> [] ->
  chunker A = la ++ ra -> concat la = concat pre ++ P' ++ X ++ S1 ->
  chunker B = lb ++ rb -> concat lb = concat pre ++ P' ++ Y ++ S1 ->
  (forall c, In c (chunker A) -> ghas g Data (h c) = true) ->
  exists mb, chunker B = pre ++ mb ++ chunker S2 /\ concat mb = P' ++ Y ++ S1 /\
             forall i, In i (file_sends h g (chunker B)) -> In i (map h mb).
Proof. exact edit_uploads_only_disturbed_lemma. Qed.
Print Assumptions edit_uploads_only_disturbed.

(* ... and at the level of a whole backup: one file of the source edited, all other files and the
   old version already indexed: the only DATA blobs handed to the packer are chunks between the cuts *)
Theorem edit_backup_uploads_only_disturbed : forall chunker,
  chunker_partition chunker -> resync_after_common_cut chunker ->
  forall (tid : list entry -> id) (h : bytes -> id) (g : gindex)
         pre P' X Y S1 S2 rest la ra lb rb its1 its2 nm m r,
  let A := concat pre ++ P' ++ X ++ S1 ++ S2 in
  let B := concat pre ++ P' ++ Y ++ S1 ++ S2 in
  chunker A = pre ++ rest -> P' ++ X ++ S1 ++ S2 <> [] ->
  chunker A = la ++ ra -> concat la = concat pre ++ P' ++ X ++ S1 ->
  chunker B = lb ++ rb -> concat lb = concat pre ++ P' ++ Y ++ S1 ->
  (forall c, In c (chunker A) -> ghas g Data (h c) = true) ->
  (forall c, In c (data_of (its1 ++ its2)) -> ghas g Data c = true) ->
  archive tid g (its1 ++ Other nm m (map h (chunker B)) :: its2) = Some r ->
  exists mb, chunker B = pre ++ mb ++ chunker S2 /\ concat mb = P' ++ Y ++ S1 /\
             forall c, In (Data, c) (r_sent r) -> In c (map h mb).
Proof. exact edit_backup_uploads_only_disturbed_lemma. Qed.
Print Assumptions edit_backup_uploads_only_disturbed.

(* the chunk-level `file_sends` above is what the archiver hands over when it processes that file *)
Theorem file_step_sends : forall tid g a nm m (h : bytes -> id) (chunks : list bytes) a',
  astep tid g a (Other nm m (map h chunks)) = Some a' ->
  a_sent a' = a_sent a ++ map (fun c => (Data, c)) (file_sends h g chunks).
Proof. exact file_step_sends_lemma. Qed.
Print Assumptions file_step_sends.

(* ------------------------------------------------------------------ non-vacuity *)
(* the chunker hypotheses are satisfiable by a content-defined chunker (cut after a zero byte) *)
Theorem chunker_hypotheses_satisfiable : chunker_partition zcut /\ resync_after_common_cut zcut.
Proof. split; [exact zcut_partition | exact zcut_resync]. Qed.
Print Assumptions chunker_hypotheses_satisfiable.

(* the duplicate window is real, and closes as soon as the first pack is indexed *)
Theorem duplicate_window_inhabited :
  (exists s, run init window_run = Some s /\ final s = true /\ idx s = [(Data, [7%N]); (Data, [7%N])]) /\
  (exists s, run init no_window_run = Some s /\ final s = true /\ idx s = [(Data, [7%N])]).
Proof. split; [exact window_inhabited_lemma | exact no_window_lemma]. Qed.
Print Assumptions duplicate_window_inhabited.

(* the schedule on which the untyped indexer lost the tree blob now stores both *)
Theorem collision_both_stored :
  exists s, run init collision_full_run = Some s /\ final s = true /\
            idx s = [(Data, [7%N]); (Tree, [7%N])].
Proof. exact collision_both_stored_lemma. Qed.
Print Assumptions collision_both_stored.

(* the hypotheses of typed_identity are satisfiable: a chunk and a tree with the same id in one source *)
Theorem typed_identity_inhabited :
  exists s r, backup_run ex_tid [] ex_collision_items ex_collision_events s r /\
              In (Data, 100%N) (r_all r) /\ In (Tree, 100%N) (r_all r) /\
              idx s = [(Data, [100%N]); (Tree, [100%N; 102%N; 101%N])].
Proof. exact typed_identity_inhabited_lemma. Qed.
Print Assumptions typed_identity_inhabited.

(* a complete backup run exists: a directory with one two-chunk file and an empty directory,
   chunk 7 already in the index *)
Theorem backup_run_inhabited :
  exists es s r, backup_run ex_tid [(Data, 7%N)] ex_items es s r /\
                 r_sent r = [(Data, 8%N); (Tree, 100%N); (Tree, 102%N); (Tree, 101%N)].
Proof.
  exists ([Send Data 8%N; Send Tree 100%N; Send Tree 102%N; Send Tree 101%N;
           Adv Data 0; Adv Data 0; Adv Data 0; Adv Data 0; Adv Data 0; Flush Data; WriteP Data; IndexP Data]
          ++ [Adv Tree 0; Adv Tree 0; Adv Tree 0; Adv Tree 0; Adv Tree 0;
              Adv Tree 0; Adv Tree 0; Adv Tree 0; Adv Tree 0; Adv Tree 0;
              Adv Tree 0; Adv Tree 0; Adv Tree 0; Adv Tree 0; Adv Tree 0; Flush Tree; WriteP Tree; IndexP Tree]).
  eexists. eexists. split.
  - unfold backup_run. split; [vm_compute; reflexivity|]. split; [apply Permutation_refl|].
    split; [vm_compute; reflexivity | reflexivity].
  - reflexivity.
Qed.
Print Assumptions backup_run_inhabited.
