#!/usr/bin/env python3
"""Merge props/*/known_findings.json fragments into /verif/known_findings.json (central file)."""
import json, glob, os
ROOT = os.path.dirname(os.path.dirname(os.path.abspath(__file__)))
c = json.load(open(os.path.join(ROOT, "known_findings.json")))
by = {(k["property"], k["signature"]): k for k in c["findings"]}
for f in sorted(glob.glob(os.path.join(ROOT, "props", "C*", "known_findings.json"))):
    for k in json.load(open(f)).get("findings", []):
        by[(k["property"], k["signature"])] = k
c["findings"] = [by[k] for k in sorted(by)]
json.dump(c, open(os.path.join(ROOT, "known_findings.json"), "w"), indent=1)
print(len(c["findings"]), "findings:", [(k["property"], k["status"], k["signature"]) for k in c["findings"]])
