#!/usr/bin/env python3
"""tools/try_seeded.py [<seeded id> ...] — apply each seeded change to /repo, run the quick check of
the property it breaks, report whether a VIOLATION is raised, undo the change.
Refuses to run when /repo has uncommitted changes to tracked files."""
import json, os, subprocess, sys, glob, time
ROOT = os.path.dirname(os.path.dirname(os.path.abspath(__file__)))
def sh(c, **k): return subprocess.run(c, shell=True, text=True, stdout=subprocess.PIPE, stderr=subprocess.STDOUT, **k)
if sh("git -C /repo diff --quiet").returncode != 0:
    sys.exit("/repo has uncommitted changes")
ids = sys.argv[1:] or sorted(os.path.basename(d) for d in glob.glob(os.path.join(ROOT, "seeded", "*")) if os.path.isdir(d))
res = {}
for i in ids:
    d = os.path.join(ROOT, "seeded", i)
    meta = json.load(open(os.path.join(d, "meta.json")))
    props = meta.get("checked_by") or [meta["property"]]
    r = sh("git -C /repo apply %s/patch.diff" % d)
    if r.returncode != 0:
        res[i] = "patch does not apply: " + r.stdout[-300:]; continue
    try:
        for p in props:
            t = time.time()
            r = sh("./check %s --tier quick" % p, cwd=ROOT, env=dict(os.environ, VERIF_EVIDENCE_DIR="/tmp/seeded_evidence"))
            v = [l for l in r.stdout.splitlines() if l.startswith("VIOLATION")]
            res[i + "/" + p] = {"rc": r.returncode, "violation_lines": v[:3], "wall_s": round(time.time() - t)}
    finally:
        sh("git -C /repo checkout -- . && git -C /repo clean -fdq -- crates/core/tests crates/core/src crates/backend/src")
print(json.dumps(res, indent=1))
