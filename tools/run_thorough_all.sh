#!/bin/sh
# run every thorough check once (used with `vp run`); evidence goes to a scratch dir
cd "$(dirname "$0")/.."
./setup.sh > /tmp/thorough_setup.log 2>&1
export VERIF_EVIDENCE_DIR=/tmp/thorough_evidence
for p in C09 C17 C08 C20 C04 C13 C11 C14 C16 C19 C15 C18 C02 C07 C12 C10 C06 C03 C05 C01; do
  s=$(date +%s)
  out=$(./check $p --tier thorough 2>&1 | grep -E "^VIOLATION|^KNOWN-FINDING|Traceback" | cut -c1-200 | head -5)
  echo "$p $(( $(date +%s) - s ))s :: $out"
done
