#!/bin/sh
# tools/mk_agent_ws.sh Cxx — scratch workspaces for building one property in isolation:
#   /tmp/vw_Cxx  git worktree of /verif  (branch agent/Cxx)
#   /tmp/rw_Cxx  git worktree of /repo   (branch verif-agent/Cxx)
set -e
P=$1
git -C /verif worktree add -q -b agent/$P /tmp/vw_$P HEAD
git -C /repo worktree add -q -b verif-agent/$P /tmp/rw_$P HEAD
echo "verif worktree /tmp/vw_$P ; repo worktree /tmp/rw_$P"
