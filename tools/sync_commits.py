#!/usr/bin/env python3
"""Bring commit hashes recorded under /verif in line with /repo's main branch:
hooks.json lists every commit whose subject starts with 'verif hooks:'; every 'fixed' entry of
the known_findings fragments gets the hash of the main-branch commit with the same subject as the
commit it names (fix commits are cherry-picked from builder branches, which changes their hash).
A table of superseded fixes maps a builder's fix to the one that was taken instead."""
import json, glob, os, re, subprocess
ROOT = os.path.dirname(os.path.dirname(os.path.abspath(__file__)))
def sh(c): return subprocess.run(c, shell=True, text=True, stdout=subprocess.PIPE, stderr=subprocess.DEVNULL).stdout
main = [l.split(" ", 1) for l in sh("git -C /repo log --format='%h %s' 32c67a8..main").splitlines()]
by_subject = {s: h for h, s in main}
SUPERSEDED = {  # subject of a fix that was not taken -> subject of the fix taken instead
 "fix: repair hotcold no longer overwrites files whose sizes differ between the hot and cold part":
 "fix: repair hotcold no longer copies a size-mismatched hot file over the cold file",
 "fix: refuse chunk size 0 for the fixed size chunker": "fix: reject chunker parameters that break chunking",
}
hooks = [h for h, s in reversed(main) if s.startswith("verif hooks:")]
json.dump({"source_commits": hooks}, open(os.path.join(ROOT, "hooks.json"), "w"))
print("hooks:", len(hooks))
for f in sorted(glob.glob(os.path.join(ROOT, "props", "C*", "known_findings.json")) + [os.path.join(ROOT, "known_findings.json")]):
    d = json.load(open(f)); ch = False
    for k in d["findings"]:
        if k.get("status") != "fixed" or not k.get("commit"): continue
        old = k["commit"]
        subj = sh("git -C /repo show -s --format=%%s %s" % old).strip()
        subj = SUPERSEDED.get(subj, subj)
        new = by_subject.get(subj)
        if not new:
            print("!! %s: commit %s (%s) not on main" % (os.path.relpath(f, ROOT), old, subj)); continue
        if new != old:
            k["commit"] = new
            k["what"] = re.sub(r"\b%s\b" % re.escape(old), new, k["what"]); ch = True
    if ch:
        json.dump(d, open(f, "w"), indent=1); print("updated", os.path.relpath(f, ROOT))
