#!/usr/bin/env python3
"""Assemble /verif/MANIFEST.json from props/*/manifest.json fragments and validate it."""
import json, glob, os, sys
ROOT = os.path.dirname(os.path.dirname(os.path.abspath(__file__)))
ALL = ["C%02d" % i for i in range(1, 21)]
checks, na = [], []
frag = {}
for f in sorted(glob.glob(os.path.join(ROOT, "props", "C*", "manifest.json"))):
    d = json.load(open(f))
    frag[d["property_id"]] = d
for p in ALL:
    d = frag.get(p)
    if d and not d.get("not_applicable"):
        d.setdefault("quick_cmd", "./check %s --tier quick" % p)
        d.setdefault("thorough_cmd", "./check %s --tier thorough" % p)
        d.setdefault("evidence_file", "/verif/evidence/%s.json" % p)
        d.setdefault("replay_cmd_template", "./check %s --replay {path}" % p)
        d.setdefault("engine", "coq-proof+correspondence")
        checks.append(d)
    else:
        na.append({"property_id": p, "reason": (d or {}).get("reason", "not built yet: the Coq model, theorems and correspondence for this property are planned (DESIGN.md section 6) but no check is registered in this revision")})
m = {
 "version": 1,
 "setup_cmd": "./setup.sh",
 "hooks": {
  "guard": "--cfg rustic_rs_rustic_core_verif",
  "enable": "RUSTFLAGS=\"--cfg rustic_rs_rustic_core_verif\" cargo build --offline (harness crate /verif/harness with path dependencies on /repo/crates/*)",
  "baseline_off_cmd": "cd /repo && cargo nextest run --workspace --no-fail-fast --offline || cargo test --workspace --no-fail-fast --offline",
  "source_commits": json.load(open(os.path.join(ROOT, "hooks.json")))["source_commits"] if os.path.exists(os.path.join(ROOT, "hooks.json")) else [],
  "add_only": True
 },
 "engines": [{"name": "coq-proof+correspondence", "path": "/verif/check",
              "serves_properties": [c["property_id"] for c in checks],
              "kind_free_text": "Coq 8.16.1 theorems about hand-written executable models (props/Cxx/coq), models tied to /repo on every run by (a) fact extraction from the source into Extracted.v and (b) a correspondence run of the extracted OCaml model against the real implementation (harness/)"}],
 "checks": checks,
 "not_applicable": na,
 "notes": "See DESIGN.md. known_findings.json lists recorded/fixed defects."
}
json.dump(m, open(os.path.join(ROOT, "MANIFEST.json"), "w"), indent=1)
try:
    import jsonschema
    jsonschema.validate(m, json.load(open("/root/.vp/MANIFEST.schema.json")))
    print("MANIFEST.json valid;", len(checks), "checks,", len(na), "not_applicable")
except ImportError:
    print("jsonschema not available; written without validation")
