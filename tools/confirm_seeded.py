#!/usr/bin/env python3
"""tools/confirm_seeded.py <seeded id> [...] — independent confirmation of a seeded change in a
scratch worktree of /repo (outside /repo and /verif): the patch applies and compiles, the
demonstration FAILS with it and PASSES without it, and the existing tests named in
meta.json["baseline_tests"] (default: rustic_core lib + integration tests) still pass with it.
Results are written into seeded/<id>/meta.json under "confirmed"."""
import json, os, re, subprocess, sys, time
ROOT = os.path.dirname(os.path.dirname(os.path.abspath(__file__)))
WT = "/tmp/confirm_wt"
TGT = "/tmp/confirm_target"
def sh(c, **k):
    return subprocess.run(c, shell=True, text=True, stdout=subprocess.PIPE, stderr=subprocess.STDOUT, **k)
def remap(cmd, orig):
    cmd = cmd.replace(orig + "_target", TGT).replace(orig + "_out", "@@OUT@@").replace(orig, WT)
    return re.sub(r"CARGO_TARGET_DIR=\S+", "CARGO_TARGET_DIR=" + TGT, cmd)
for sid in sys.argv[1:]:
    d = os.path.join(ROOT, "seeded", sid)
    meta = json.load(open(os.path.join(d, "meta.json")))
    orig = meta.get("scratch_worktree") or ("/tmp/mut_" + meta["property"])
    sh("git -C /repo worktree remove --force %s" % WT)
    r = sh("git -C /repo worktree add -q --detach %s HEAD" % WT)
    res = {"at_repo_commit": sh("git -C /repo rev-parse --short HEAD").stdout.strip()}
    try:
        demo_install = remap(meta["demo_install"], orig).replace("@@OUT@@/%s" % sid.split("-")[-1], d)
        demo_cmd = remap(meta["demo_command"], orig)
        if "CARGO_TARGET_DIR" not in demo_cmd:
            demo_cmd = "export CARGO_TARGET_DIR=%s; " % TGT + demo_cmd
        r = sh(demo_install); assert r.returncode == 0, r.stdout
        t = time.time(); r0 = sh(demo_cmd, cwd=WT)
        res["demo_passes_without_patch"] = r0.returncode == 0
        r = sh("git -C %s apply %s/patch.diff" % (WT, d)); res["patch_applies"] = r.returncode == 0
        r1 = sh(demo_cmd, cwd=WT)
        res["demo_fails_with_patch"] = r1.returncode != 0 and "error: could not compile" not in r1.stdout
        res["demo_tail_with_patch"] = r1.stdout[-600:]
        base = meta.get("baseline_tests") or ["cargo test -p rustic_core --offline --lib", "cargo test -p rustic_core --offline --test integration"]
        ok = True; outs = []
        known = ("test_check::case_3", "test_check::case_4", "test_error_debug", "test_error_display")
        for b in base:
            rb = sh("export CARGO_TARGET_DIR=%s; %s 2>&1" % (TGT, b), cwd=WT)
            fails = re.findall(r"^test (\S+) \.\.\. FAILED$", rb.stdout, re.M)
            fails = [f for f in fails if not any(k in f for k in known) and "demo" not in f]
            still = []
            for f in fails:       # load flakiness ("index still in use"): rerun singly
                passed = False
                for _ in range(3):
                    r1x = sh("export CARGO_TARGET_DIR=%s; %s %s -- --exact --test-threads 1 2>&1" % (TGT, b, f.split("::")[-1] if False else f), cwd=WT)
                    if re.search(r"test result: ok\. 1 passed", r1x.stdout):
                        passed = True; break
                if not passed: still.append(f)
            summ = re.findall(r"^test result:.*$", rb.stdout, re.M)
            outs.append({"cmd": b, "summary": summ, "failed_first_run": fails, "failed_after_single_reruns": still,
                         "compiled": "error: could not compile" not in rb.stdout})
            ok = ok and not still and "error: could not compile" not in rb.stdout and bool(summ)
        res["existing_tests_pass_with_patch"] = ok
        res["baseline_output"] = outs
        res["wall_s"] = round(time.time() - t)
    except AssertionError as e:
        res["error"] = str(e)[-500:]
    finally:
        sh("git -C /repo worktree remove --force %s" % WT)
    meta["confirmed"] = res
    json.dump(meta, open(os.path.join(d, "meta.json"), "w"), indent=1)
    print(sid, json.dumps({k: v for k, v in res.items() if k not in ("demo_tail_with_patch", "baseline_output")}))
