#!/bin/sh
# tools/adopt_seeded.sh Cxx N — copy what a mutation agent left in /tmp/mut_Cxx_out/N into seeded/Cxx-N
# (patch.diff, demo.rs or demo.diff, meta.json); confirm afterwards with tools/confirm_seeded.py Cxx-N.
set -e
p=$1; n=$2; d=/verif/seeded/$p-$n
mkdir -p $d
for f in patch.diff demo.rs demo.diff meta.json; do [ -f /tmp/mut_${p}_out/$n/$f ] && cp /tmp/mut_${p}_out/$n/$f $d/; done
ls $d
