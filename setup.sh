#!/bin/sh
# MANIFEST.setup_cmd — offline build of the whole framework (Coq development,
# extracted models, correspondence harness against /repo's working tree).
cd "$(dirname "$0")"
export CARGO_NET_OFFLINE=true
exec python3 -c "import sys; sys.path.insert(0,'lib'); import vlib; sys.exit(vlib.setup_all())"
