let rec nat_of_int n = if n <= 0 then O else S (nat_of_int (n - 1))
let int_of_nat n = let rec go a = function O -> a | S m -> go (a + 1) m in go 0 n
