(* token reader over one line of whitespace-separated tokens; main loop *)
let toks line = ref (List.filter (fun s -> s <> "") (String.split_on_char ' ' (String.trim line)))
let next t = match !t with x :: r -> t := r; x | [] -> failwith "unexpected end of case line"
let ni t = int_of_string (next t)
let more t = !t <> []
let rec ntimes n f = if n <= 0 then [] else let x = f () in x :: ntimes (n - 1) f
let main_loop (f : string -> string) =
  let ic = if Array.length Sys.argv > 1 && Sys.argv.(1) <> "-" then open_in Sys.argv.(1) else stdin in
  (try
     while true do
       let line = input_line ic in
       if String.trim line <> "" then begin
         let r = try f line with Stack_overflow -> "model-stack-overflow" | Failure m -> "model-failure:" ^ m in
         print_string r; print_newline ()
       end
     done
   with End_of_file -> ());
  flush stdout
