"""Tiny Rust item scanner used by the per-property fact extractors: find the
body of a named fn / the initialiser of a named const, with brace matching that
skips strings, chars and comments.  Fails loudly (ExtractError) when an item is
missing or no longer has the expected shape."""
import re

class ExtractError(Exception):
    pass

def strip_comments(src):
    out, i, n = [], 0, len(src)
    while i < n:
        c = src[i]
        if src.startswith("//", i):
            j = src.find("\n", i)
            i = n if j < 0 else j
        elif src.startswith("/*", i):
            j = src.find("*/", i + 2)
            i = n if j < 0 else j + 2
        elif c == '"':
            j = i + 1
            while j < n and src[j] != '"':
                j += 2 if src[j] == "\\" else 1
            out.append(src[i:j + 1]); i = j + 1
        else:
            out.append(c); i += 1
    return "".join(out)

def match_brace(src, i, open_c="{", close_c="}"):
    """src[i] == open_c; return index of the matching close."""
    depth, n = 0, len(src)
    j = i
    while j < n:
        c = src[j]
        if c == '"':
            j += 1
            while j < n and src[j] != '"':
                j += 2 if src[j] == "\\" else 1
        elif c == open_c:
            depth += 1
        elif c == close_c:
            depth -= 1
            if depth == 0:
                return j
        j += 1
    raise ExtractError("unbalanced braces")

def fn_body(src, name, nth=0):
    """Body text (without outer braces) of the nth `fn name`."""
    ms = list(re.finditer(r"\bfn\s+%s\s*(<[^>]*>)?\s*\(" % re.escape(name), src))
    if len(ms) <= nth:
        raise ExtractError("fn %s not found" % name)
    m = ms[nth]
    p = match_brace(src, m.end() - 1, "(", ")")
    b = src.find("{", p)
    semi = src.find(";", p)
    if b < 0 or (0 <= semi < b):
        raise ExtractError("fn %s has no body" % name)
    e = match_brace(src, b)
    return src[b + 1:e]

def fn_sig(src, name, nth=0):
    ms = list(re.finditer(r"\bfn\s+%s\s*(<[^>]*>)?\s*\(" % re.escape(name), src))
    if len(ms) <= nth:
        raise ExtractError("fn %s not found" % name)
    m = ms[nth]
    p = match_brace(src, m.end() - 1, "(", ")")
    b = src.find("{", p)
    return src[m.start():b]

def const_value(src, name):
    m = re.search(r"\bconst\s+%s\s*:\s*[\w:<>]+\s*=\s*([^;]+);" % re.escape(name), src)
    if not m:
        raise ExtractError("const %s not found" % name)
    return m.group(1).strip()

def int_expr(s):
    """Evaluate a constant integer expression like `4 * 1024` or `1 << 22`."""
    t = re.sub(r"_", "", s)
    t = re.sub(r"(\d)(u8|u16|u32|u64|usize|i32|i64)\b", r"\1", t)
    t = t.replace("/", "//")
    if not re.fullmatch(r"[\d\s+\-*/()<>x a-fA-F]+", t):
        raise ExtractError("not a constant integer expression: " + s)
    return int(eval(t, {"__builtins__": {}}))

def read(repo, rel):
    try:
        return strip_comments(open(repo + "/" + rel).read())
    except FileNotFoundError:
        raise ExtractError("source file missing: " + rel)
