(* conversions for models that use positive / N only (no Z) *)
let rec pos_of_int n = if n = 1 then XH else if n land 1 = 0 then XO (pos_of_int (n lsr 1)) else XI (pos_of_int (n lsr 1))
let n_of_int n = if n = 0 then N0 else if n < 0 then failwith "n_of_int: negative" else Npos (pos_of_int n)
let rec int_of_pos = function XH -> 1 | XO p -> 2 * int_of_pos p | XI p -> 2 * int_of_pos p + 1
let int_of_n = function N0 -> 0 | Npos p -> int_of_pos p
