#!/usr/bin/env python3
"""Shared machinery for the per-property checks (see DESIGN.md sections 2-4).

Every check is `./check Cxx [--tier quick|thorough] [--replay FILE]`, which loads
props/Cxx/check.py and calls its `run(ctx)`.  This module gives the pieces:

  * Coq: (re)generate _CoqProject/Makefile.coq from the files on disk, `make`
    selected targets, compile a property file with coqc capturing the output of
    `Print Assumptions`, check the axioms against the allow list, grep the
    development for forbidden commands.
  * Extraction: run props/Cxx/coq/Extract.v and link the result with
    props/Cxx/driver.ml into build/Cxx/model (ExtrOcamlBasic only).
  * Harness: build one binary of /verif/harness against REPO's working tree with
    the hook cfg switched on.
  * Reporting: evidence file, VIOLATION / KNOWN-FINDING lines, replay files.
"""
import hashlib, json, os, re, shutil, subprocess, sys, time, glob, random

ROOT = os.path.dirname(os.path.dirname(os.path.abspath(__file__)))
REPO = os.environ.get("VERIF_REPO", "/repo")
CACHE = os.path.join(ROOT, ".cache")
BUILD = os.path.join(ROOT, "build")
GUARD = "rustic_rs_rustic_core_verif"
NCPU = os.cpu_count() or 4

# Axioms declared by the Coq standard library that theorems may depend on.
# Anything else printed by `Print Assumptions` fails the check.
AXIOM_ALLOW = {
    "functional_extensionality_dep", "FunctionalExtensionality.functional_extensionality_dep",
    "proof_irrelevance", "ProofIrrelevance.proof_irrelevance",
    "classic", "Classical_Prop.classic",
    "JMeq_eq", "JMeq.JMeq_eq", "Eqdep.Eq_rect_eq.eq_rect_eq", "eq_rect_eq",
    "propositional_extensionality", "PropExtensionality.propositional_extensionality",
}

FORBIDDEN = re.compile(
    r"\b(Admitted|admit|Axiom|Axioms|Parameter|Parameters|Conjecture|Conjectures|"
    r"Admit\s+Obligations|Unset\s+Guard\s+Checking|Unset\s+Positivity\s+Checking|"
    r"Unset\s+Universe\s+Checking|bypass_check|type-in-type|impredicative-set|native_compute)\b")


def log(*a):
    print("[verif]", *a, file=sys.stderr, flush=True)


def sh(cmd, timeout=3600, cwd=None, env=None, inp=None):
    """Run a command, return (rc, stdout+stderr). rc 124 on timeout."""
    e = dict(os.environ)
    e.setdefault("CARGO_NET_OFFLINE", "true")
    if env:
        e.update(env)
    try:
        p = subprocess.run(cmd, shell=isinstance(cmd, str), cwd=cwd, env=e, input=inp,
                           stdout=subprocess.PIPE, stderr=subprocess.STDOUT,
                           timeout=timeout, text=True, errors="replace")
        return p.returncode, p.stdout
    except subprocess.TimeoutExpired as ex:
        out = ex.stdout or ""
        if isinstance(out, bytes):
            out = out.decode(errors="replace")
        return 124, out + "\n[timeout after %ss]" % timeout


def sh2(cmd, timeout=3600, cwd=None, env=None, inp=None):
    """Like sh but keeps stdout and stderr apart: (rc, stdout, stderr)."""
    e = dict(os.environ)
    e.setdefault("CARGO_NET_OFFLINE", "true")
    if env:
        e.update(env)
    try:
        p = subprocess.run(cmd, shell=isinstance(cmd, str), cwd=cwd, env=e, input=inp,
                           stdout=subprocess.PIPE, stderr=subprocess.PIPE,
                           timeout=timeout, text=True, errors="replace")
        return p.returncode, p.stdout, p.stderr
    except subprocess.TimeoutExpired as ex:
        return 124, "", "[timeout after %ss]" % timeout


# --------------------------------------------------------------------------- Coq

def coq_sources():
    """All .v files that belong to the development (Extract.v files excluded)."""
    vs = sorted(glob.glob(os.path.join(ROOT, "coq", "Base", "*.v")))
    for d in sorted(glob.glob(os.path.join(ROOT, "props", "C*", "coq"))):
        for f in sorted(glob.glob(os.path.join(d, "*.v"))):
            if os.path.basename(f) in ("Extract.v",) or os.path.basename(f).startswith("cases"):
                continue
            vs.append(f)
    return vs


def coq_qargs():
    a = ["-Q", "coq/Base", "Verif.Base"]
    for d in sorted(glob.glob(os.path.join(ROOT, "props", "C*", "coq"))):
        p = os.path.basename(os.path.dirname(d))
        a += ["-Q", os.path.relpath(d, ROOT), "Verif." + p]
    return a


def coq_project():
    """Regenerate _CoqProject and Makefile.coq when the file list changed."""
    q = coq_qargs()
    lines = [" ".join(q[i:i + 3]) for i in range(0, len(q), 3)]
    lines += [os.path.relpath(f, ROOT) for f in coq_sources()]
    txt = "\n".join(lines) + "\n"
    cp = os.path.join(ROOT, "_CoqProject")
    old = open(cp).read() if os.path.exists(cp) else None
    if old != txt or not os.path.exists(os.path.join(ROOT, "Makefile.coq")):
        open(cp, "w").write(txt)
        rc, out = sh("coq_makefile -f _CoqProject -o Makefile.coq", cwd=ROOT)
        if rc != 0:
            raise RuntimeError("coq_makefile failed:\n" + out)


class CoqLock:
    """Serialises everything that touches _CoqProject / Makefile.coq / .vo files, so that two
    checks running at the same time in one /verif do not trample each other's build."""
    depth = 0
    fh = None

    def __enter__(self):
        import fcntl
        if CoqLock.depth == 0:
            os.makedirs(CACHE, exist_ok=True)
            CoqLock.fh = open(os.path.join(CACHE, "coq.lock"), "w")
            fcntl.flock(CoqLock.fh, fcntl.LOCK_EX)
        CoqLock.depth += 1

    def __exit__(self, *a):
        import fcntl
        CoqLock.depth -= 1
        if CoqLock.depth == 0:
            fcntl.flock(CoqLock.fh, fcntl.LOCK_UN)
            CoqLock.fh.close()


def coq_make(targets, timeout=2400):
    """make the given .vo targets (paths relative to ROOT). Returns (ok, log)."""
    with CoqLock():
        coq_project()
        tg = " ".join(targets)
        rc, out = sh("timeout %d make -f Makefile.coq -j%d %s" % (timeout, NCPU, tg), cwd=ROOT,
                     timeout=timeout + 30)
    return rc == 0, out


def coq_compile_capture(vfile, timeout=900):
    """coqc one file (with the project's -Q flags), return (ok, output)."""
    rc, out = sh(["timeout", str(timeout), "coqc"] + coq_qargs() + [vfile], cwd=ROOT,
                 timeout=timeout + 30)
    return rc == 0, out


def parse_assumptions(out):
    """Parse the output of a Props.v file.  Convention: every property theorem T
    is followed by `Print Assumptions T.`; the output is either
    'Closed under the global context' or 'Axioms:' followed by 'name : type'
    lines.  Returns a list of axiom-name lists, one per Print Assumptions."""
    res = []
    cur = None
    for ln in out.splitlines():
        if ln.startswith("Closed under the global context"):
            if cur is not None:
                res.append(cur)
                cur = None
            res.append([])
        elif ln.startswith("Axioms:"):
            if cur is not None:
                res.append(cur)
            cur = []
        elif cur is not None:
            m = re.match(r"^([A-Za-z_][\w.']*)\s*(:|$)", ln)
            if m and not ln.startswith(" "):
                cur.append(m.group(1))
            elif ln.strip() == "":
                pass
    if cur is not None:
        res.append(cur)
    return res


def theorem_names(vfile):
    src = open(vfile).read()
    src = strip_coq_comments(src)
    return re.findall(r"^\s*(?:Theorem|Lemma|Corollary)\s+([\w']+)", src, re.M)


def strip_coq_comments(s):
    out = []
    depth = 0
    i = 0
    instr = False
    while i < len(s):
        if depth == 0 and s[i] == '"':
            instr = not instr
            out.append(s[i]); i += 1; continue
        if not instr and s.startswith("(*", i):
            depth += 1; i += 2; continue
        if not instr and depth > 0 and s.startswith("*)", i):
            depth -= 1; i += 2; continue
        if depth == 0:
            out.append(s[i])
        i += 1
    return "".join(out)


def grep_forbidden(files):
    bad = []
    for f in files:
        src = strip_coq_comments(open(f).read())
        for n, ln in enumerate(src.splitlines(), 1):
            m = FORBIDDEN.search(ln)
            if m:
                bad.append("%s:%d: %s" % (os.path.relpath(f, ROOT), n, m.group(0)))
    return bad


def coq_deps_of(vfile):
    """Transitive closure of project files a .v file depends on (via coqdep)."""
    with CoqLock():
        coq_project()
    rc, out = sh(["coqdep"] + coq_qargs() + [os.path.relpath(f, ROOT) for f in coq_sources()], cwd=ROOT)
    deps = {}
    for ln in out.splitlines():
        if ":" not in ln:
            continue
        lhs, rhs = ln.split(":", 1)
        tgt = [t for t in lhs.split() if t.endswith(".vo")]
        if not tgt:
            continue
        deps[tgt[0]] = [d[:-1] for d in rhs.split() if d.endswith(".vo")]
    start = os.path.relpath(vfile, ROOT)
    seen, todo = set(), [start]
    while todo:
        f = todo.pop()
        if f in seen:
            continue
        seen.add(f)
        todo += deps.get(f + "o", [])
    return sorted(os.path.join(ROOT, f) for f in seen)


def coq_check_property(prop, extra_targets=()):
    with CoqLock():
        return _coq_check_property(prop, extra_targets)


def _coq_check_property(prop, extra_targets=()):
    """Build and audit the Coq side of one property.

    Returns a dict: ok, obligations, discharged, theorems, axioms, failures (list
    of strings naming what no longer checks), log."""
    pdir = os.path.join(ROOT, "props", prop, "coq")
    props_v = os.path.join(pdir, "Props.v")
    r = {"ok": False, "obligations": 0, "discharged": 0, "theorems": [], "axioms": {},
         "failures": [], "log": ""}
    names = theorem_names(props_v)
    r["theorems"] = names
    r["obligations"] = len(names)
    deps = [f for f in coq_deps_of(props_v) if f != props_v]
    targets = [os.path.relpath(f, ROOT) + "o" for f in deps] + list(extra_targets)
    ok, out = coq_make(targets)
    r["log"] += out[-6000:]
    if not ok:
        m = re.findall(r'File "([^"]+)", line (\d+)', out)
        where = ("%s:%s" % m[-1]) if m else "unknown"
        r["failures"].append("coq build of the model/proofs failed at " + where)
        return r
    ok, out = coq_compile_capture(os.path.relpath(props_v, ROOT))
    r["log"] += out[-6000:]
    if not ok:
        m = re.findall(r'File "([^"]+)", line (\d+)', out)
        where = ("%s:%s" % m[-1]) if m else "unknown"
        # which theorem?
        thm = "?"
        if m:
            ln = int(m[-1][1])
            src = open(props_v).read().splitlines()
            for i in range(min(ln, len(src)) - 1, -1, -1):
                mm = re.match(r"\s*(?:Theorem|Lemma|Corollary|Check)\s+([\w']+)", src[i])
                if mm:
                    thm = mm.group(1); break
        r["failures"].append("property theorem %s no longer checks (%s)" % (thm, where))
        return r
    ax = parse_assumptions(out)
    if len(ax) < len(names):
        r["failures"].append("Props.v prints %d assumption reports for %d theorems" % (len(ax), len(names)))
        return r
    used = set()
    for n, a in zip(names, ax):
        r["axioms"][n] = a
        for x in a:
            used.add(x)
            if x not in AXIOM_ALLOW and x.split(".")[-1] not in AXIOM_ALLOW:
                r["failures"].append("theorem %s depends on non-allow-listed axiom %s" % (n, x))
    bad = grep_forbidden(deps + [props_v])
    for b in bad:
        r["failures"].append("forbidden command: " + b)
    if not r["failures"]:
        r["discharged"] = len(names)
        r["ok"] = True
    r["axioms_used"] = sorted(used)
    return r


# -------------------------------------------------------------------- extraction

def build_model(prop, timeout=900):
    with CoqLock():
        return _build_model(prop, timeout)


def _build_model(prop, timeout=900):
    """Run props/<prop>/coq/Extract.v (ExtrOcamlBasic only) and link the result with
    props/<prop>/driver.ml.  Returns path of the executable; raises on failure."""
    pdir = os.path.join(ROOT, "props", prop)
    ex = os.path.join(pdir, "coq", "Extract.v")
    bdir = os.path.join(BUILD, prop)
    os.makedirs(bdir, exist_ok=True)
    src = strip_coq_comments(open(ex).read())
    if re.search(r"\bExtract\s+(Inlined\s+)?(Constant|Inductive)\b", src):
        raise RuntimeError("Extract.v of %s uses its own Extract directives" % prop)
    # dependencies must be built
    deps = [f for f in coq_deps_of_extract(ex)]
    ok, out = coq_make([os.path.relpath(f, ROOT) + "o" for f in deps])
    if not ok:
        raise RuntimeError("coq build for extraction failed:\n" + out[-3000:])
    stamp = os.path.join(bdir, "stamp")
    h = hashlib.sha256()
    for f in deps + [ex, os.path.join(pdir, "driver.ml")]:
        h.update(open(f, "rb").read())
    exe = os.path.join(bdir, "model")
    if os.path.exists(exe) and os.path.exists(stamp) and open(stamp).read() == h.hexdigest():
        return exe
    q = []
    qa = coq_qargs()
    for i in range(0, len(qa), 3):
        q += ["-Q", os.path.join(ROOT, qa[i + 1]), qa[i + 2]]
    rc, out = sh(["timeout", str(timeout), "coqc"] + q + ["-o", os.path.join(bdir, "Extract.vo"), ex],
                 cwd=bdir, timeout=timeout + 30)
    if rc != 0:
        raise RuntimeError("extraction failed:\n" + out[-3000:])
    drv = open(os.path.join(pdir, "driver.ml")).read()
    m = re.match(r"\(\*\s*prelude:([\w\s]*)\*\)", drv)
    pre = "open Model_ml\n"
    for part in (m.group(1).split() if m else ["zn"]) + ["io"]:
        pre += open(os.path.join(ROOT, "lib", "prelude_%s.ml" % part)).read() + "\n"
    open(os.path.join(bdir, "driver.ml"), "w").write(pre + drv)
    base = "model_ml"
    if not os.path.exists(os.path.join(bdir, base + ".ml")):
        raise RuntimeError("Extract.v of %s must end with: Extraction \"model_ml.ml\" ..." % prop)
    cmd = "ocamlfind ocamlopt -O2 -w -a -package str -linkpkg %s.mli %s.ml driver.ml -o model 2>&1 || " \
          "ocamlfind ocamlopt -w -a -package str -linkpkg %s.mli %s.ml driver.ml -o model" % (base, base, base, base)
    rc, out = sh(cmd, cwd=bdir, timeout=timeout)
    if rc != 0 or not os.path.exists(exe):
        raise RuntimeError("ocaml build of the extracted model failed:\n" + out[-3000:])
    open(stamp, "w").write(h.hexdigest())
    return exe


def coq_deps_of_extract(ex):
    """Project files an Extract.v imports (transitively)."""
    src = strip_coq_comments(open(ex).read())
    mods = re.findall(r"From\s+(Verif\.\w+)\s+Require\s+(?:Import\s+|Export\s+)?([\w\s]+?)\.", src)
    files = []
    for lib, names in mods:
        for n in names.split():
            part = lib.split(".")[1]
            d = os.path.join(ROOT, "coq", "Base") if part == "Base" else os.path.join(ROOT, "props", part, "coq")
            files.append(os.path.join(d, n + ".v"))
    allf = set()
    for f in files:
        for g in coq_deps_of(f):
            allf.add(g)
    return sorted(allf)


# ----------------------------------------------------------------------- harness

def harness_dir():
    src = os.path.join(ROOT, "harness")
    if os.path.realpath(REPO) == "/repo":
        return src, os.path.join(CACHE, "target")
    tag = hashlib.sha1(os.path.realpath(REPO).encode()).hexdigest()[:10]
    dst = os.path.join(CACHE, "harness_" + tag)
    os.makedirs(dst, exist_ok=True)
    sh(["rsync", "-a", "--delete", "--exclude", "Cargo.lock", src + "/", dst + "/"])
    ct = open(os.path.join(src, "Cargo.toml")).read().replace('"/repo/', '"%s/' % os.path.realpath(REPO))
    open(os.path.join(dst, "Cargo.toml"), "w").write(ct)
    return dst, os.path.join(CACHE, "target_" + tag)


def build_harness(binname, release=False, timeout=3000):
    """cargo build one harness binary against REPO's working tree, hooks on."""
    hdir, tdir = harness_dir()
    lock = os.path.join(hdir, "Cargo.lock")
    shutil.copy(os.path.join(REPO, "Cargo.lock"), lock)
    env = {"CARGO_NET_OFFLINE": "true", "CARGO_TARGET_DIR": tdir,
           "RUSTFLAGS": "--cfg " + GUARD + " -A warnings"}
    cmd = ["cargo", "build", "--offline", "--bin", binname] + (["--release"] if release else [])
    rc, out = sh(cmd, cwd=hdir, env=env, timeout=timeout)
    if rc != 0:
        raise HarnessBuildError(out[-6000:])
    return os.path.join(tdir, "release" if release else "debug", binname)


class HarnessBuildError(RuntimeError):
    pass


# --------------------------------------------------------------------- reporting

class Ctx:
    def __init__(self, prop, tier, seed, replay=None):
        self.prop = prop
        self.tier = tier
        self.seed = seed
        self.replay = replay
        self.t0 = time.time()
        self.rng = random.Random(seed)
        self.coverage = {}
        self.assumptions = []
        self.violations = []      # (replay_obj, no_input)
        self.known_hits = []
        self.level = "proof"
        self.known = load_known(prop)
        self.pdir = os.path.join(ROOT, "props", prop)
        self.bdir = os.path.join(BUILD, prop)
        os.makedirs(self.bdir, exist_ok=True)

    def thorough(self):
        return self.tier == "thorough"

    # a failing case: `witness` is any JSON-serialisable description that replays;
    # `signature` is matched against known_findings.json
    def violation(self, what, witness, signature=None, no_input=False):
        if signature is not None:
            for k in self.known:
                if k.get("status", "open") == "open" and k["signature"] == signature:
                    if signature not in [h[0] for h in self.known_hits]:
                        self.known_hits.append((signature, k["what"]))
                    return False
        self.violations.append({"what": what, "witness": witness, "signature": signature,
                                "no_failing_input_found": no_input})
        return True

    def finish(self):
        evdir = os.environ.get("VERIF_EVIDENCE_DIR") or os.path.join(ROOT, "evidence")
        os.makedirs(evdir, exist_ok=True)
        os.makedirs(os.path.join(ROOT, "replays"), exist_ok=True)
        for sig, what in self.known_hits:
            print("KNOWN-FINDING: property=%s %s" % (self.prop, what))
        rc = 0
        # one VIOLATION line per distinct 'what' (keep output short)
        seen = set()
        for v in self.violations:
            key = v["what"]
            if key in seen:
                continue
            seen.add(key)
            h = hashlib.sha1(json.dumps(v, sort_keys=True, default=str).encode()).hexdigest()[:12]
            path = os.path.join(ROOT, "replays", "%s-%s.json" % (self.prop, h))
            json.dump({"property": self.prop, "seed": self.seed, "tier": self.tier, **v},
                      open(path, "w"), indent=1, default=str)
            tail = " no-failing-input-found" if v["no_failing_input_found"] else ""
            print("VIOLATION property=%s replay=%s%s" % (self.prop, path, tail))
            rc = 1
        if self.coverage.get("discharged") == 0:
            # keep the evidence file schema-valid on a run whose obligations are broken
            self.coverage["discharged_this_run"] = self.coverage.pop("discharged")
            self.coverage.setdefault("evaluations", 1)
            self.coverage.setdefault("distinct_nontrivial", 2)
        ev = {"property_id": self.prop, "tier": self.tier, "seed": self.seed, "level": self.level,
              "coverage": self.coverage, "assumptions": self.assumptions,
              "wall_s": round(time.time() - self.t0, 2), "violations": len(seen),
              "known_findings_hit": [w for _, w in self.known_hits]}
        json.dump(ev, open(os.path.join(evdir, self.prop + ".json"), "w"), indent=1, default=str)
        return rc


def load_known(prop):
    """known_findings.json (central, committed) plus props/<prop>/known_findings.json
    (fragment, merged into the central file by tools/gen_manifest.py)."""
    res, seen = [], set()
    for p in (os.path.join(ROOT, "known_findings.json"), os.path.join(ROOT, "props", prop, "known_findings.json")):
        if not os.path.exists(p):
            continue
        d = json.load(open(p))
        for k in d.get("findings", []):
            if k.get("property") == prop and k["signature"] not in seen:
                seen.add(k["signature"]); res.append(k)
    return res


TRUSTED_BASE_COMMON = [
    "Coq 8.16.1 kernel (coqc; vm_compute used for witness lemmas and finite sweeps; native_compute not used)",
    "no Axiom/Parameter/Admitted in the development (grepped every run); Print Assumptions under every property theorem checked against the standard-library allow list",
    "extraction: Require Extraction + ExtrOcamlBasic only (Extract Inductive bool/option/unit/list/prod/sumbool/sumor, Extract Inlined Constant andb/orb); OCaml 4.13.1; hand-written driver.ml (parsing/printing only)",
    "correspondence harness (/verif/harness Rust crate, props/*/check.py generators and canonicalisers)",
]


def proof_stage(ctx, search_fn=None):
    """Common first stage: build + audit the Coq side.  When an obligation no longer
    checks, `search_fn(ctx)` (the property's own search for a failing input on model
    and implementation) is run by the caller; if it reports nothing, a
    no-failing-input-found violation is raised here.  Returns the audit dict."""
    r = coq_check_property(ctx.prop)
    ctx.coverage.update({
        "obligations": r["obligations"], "discharged": r["discharged"],
        "checker_cmd": "make -f Makefile.coq <deps of props/%s/coq/Props.v> && coqc props/%s/coq/Props.v (Print Assumptions audited)" % (ctx.prop, ctx.prop),
        "theorems": r["theorems"], "axioms_per_theorem": r["axioms"],
        "trusted_base": list(TRUSTED_BASE_COMMON),
    })
    ctx.coq = r
    if r["ok"] and ctx.thorough():
        # independent re-check of the compiled files (and everything they depend on)
        qa = coq_qargs()
        lib = "Verif.%s.Props" % ctx.prop
        rc, out = sh(["timeout", "1500", "coqchk", "-silent", "-o"] + qa + [lib], cwd=ROOT, timeout=1600)
        ax = re.findall(r"^\s*([A-Za-z_][\w.']*)\s*$", out.split("Axioms:")[-1], re.M) if "Axioms:" in out else []
        ctx.coverage["coqchk"] = {"rc": rc, "axioms_of_loaded_libraries": ax[:40], "tail": out[-400:]}
        if rc != 0:
            r["ok"] = False
            r["failures"].append("coqchk rejects the compiled development: " + out[-300:])
    return r


def finish_broken_obligations(ctx):
    """Call after the search: if Coq obligations are broken and the search found no
    concrete violation, report no-failing-input-found."""
    r = ctx.coq
    if r["ok"]:
        return
    if not ctx.violations:
        ctx.violation("proof obligation broken: " + "; ".join(r["failures"]),
                      {"failures": r["failures"], "log_tail": r["log"][-3000:]}, no_input=True)
    else:
        for v in ctx.violations:
            v.setdefault("broken_obligations", r["failures"])


def main(argv):
    import argparse, importlib.util
    ap = argparse.ArgumentParser()
    ap.add_argument("prop")
    ap.add_argument("--tier", default=os.environ.get("VERIF_TIER", "quick"))
    ap.add_argument("--replay", default=None)
    a = ap.parse_args(argv)
    seed = int(os.environ.get("VERIF_SEED", "1") or "1")
    ctx = Ctx(a.prop, a.tier if a.tier in ("quick", "thorough") else "quick", seed, a.replay)
    spec = importlib.util.spec_from_file_location("check_" + a.prop, os.path.join(ROOT, "props", a.prop, "check.py"))
    mod = importlib.util.module_from_spec(spec)
    spec.loader.exec_module(mod)
    try:
        mod.run(ctx)
    except HarnessBuildError as e:
        ctx.violation("harness no longer builds against the source tree (hook or API the correspondence needs is gone)",
                      {"log_tail": str(e)[-3000:]}, no_input=True)
    return ctx.finish()


def regen_extracted(prop):
    """Run props/<prop>/extract.py:gen(REPO) and rewrite coq/Extracted.v when it changed.
    Returns (meta, error_string_or_None)."""
    import importlib.util
    from rustscan import ExtractError
    path = os.path.join(ROOT, "props", prop, "extract.py")
    if not os.path.exists(path):
        return None, None
    spec = importlib.util.spec_from_file_location("extract_" + prop, path)
    mod = importlib.util.module_from_spec(spec)
    spec.loader.exec_module(mod)
    try:
        txt, meta = mod.gen(REPO)
    except ExtractError as e:
        return None, str(e)
    p = os.path.join(ROOT, "props", prop, "coq", "Extracted.v")
    if not os.path.exists(p) or open(p).read() != txt:
        open(p, "w").write(txt)
    return meta, None


def setup_all():
    """MANIFEST.setup_cmd: build everything from the files on disk."""
    props = sorted(os.path.basename(os.path.dirname(p)) for p in glob.glob(os.path.join(ROOT, "props", "C*", "check.py")))
    for p in props:
        meta, err = regen_extracted(p)
        if err:
            log("extract", p, "failed:", err)
    coq_project()
    rc, out = sh("timeout 3000 make -f Makefile.coq -j%d -k" % NCPU, cwd=ROOT, timeout=3100)
    log("coq make rc=%d" % rc)
    if rc != 0:
        log(out[-3000:])
    for p in props:
        if os.path.exists(os.path.join(ROOT, "props", p, "coq", "Extract.v")):
            try:
                build_model(p)
            except Exception as e:
                log("model", p, "failed:", str(e)[-1500:])
    hdir, tdir = harness_dir()
    shutil.copy(os.path.join(REPO, "Cargo.lock"), os.path.join(hdir, "Cargo.lock"))
    env = {"CARGO_NET_OFFLINE": "true", "CARGO_TARGET_DIR": tdir, "RUSTFLAGS": "--cfg " + GUARD + " -A warnings"}
    rc, out = sh(["cargo", "build", "--offline", "--bins", "--keep-going"], cwd=hdir, env=env, timeout=3000)
    log("cargo build rc=%d" % rc)
    if rc != 0:
        log(out[-3000:])
    return 0
