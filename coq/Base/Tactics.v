(* Shared set-up: imports and lia configuration used by all model/proof files. *)
From Coq Require Export List ZArith NArith Arith Bool Lia ZifyBool ZifyNat ZifyN Permutation Sorted.
Export ListNotations.
Ltac Zify.zify_post_hook ::= Z.div_mod_to_equations.
Global Arguments N.add : simpl never.
Global Arguments N.sub : simpl never.
Global Arguments N.mul : simpl never.
Global Arguments N.eqb : simpl never.
Global Arguments N.ltb : simpl never.
Global Arguments N.leb : simpl never.
Global Arguments Z.add : simpl never.
Global Arguments Z.sub : simpl never.
Global Arguments Z.mul : simpl never.
Global Arguments Z.div : simpl never.
Global Arguments Z.modulo : simpl never.
Global Arguments Z.eqb : simpl never.
Global Arguments Z.ltb : simpl never.
Global Arguments Z.leb : simpl never.
Global Arguments Z.gtb : simpl never.
Global Arguments Z.geb : simpl never.

Ltac inv H := inversion H; subst; clear H.
Ltac destr_if :=
  match goal with
  | |- context [if ?c then _ else _] => destruct c eqn:?
  | H : context [if ?c then _ else _] |- _ => destruct c eqn:?
  end.

Lemma flat_map_ext_In {A B} (f g : A -> list B) (l : list A) :
  (forall a, In a l -> f a = g a) -> flat_map f l = flat_map g l.
Proof.
  induction l as [|a l IH]; intro H; simpl; [reflexivity|].
  rewrite H by (left; reflexivity). rewrite IH; [reflexivity|].
  intros b Hb. apply H. right. assumption.
Qed.

Lemma existsb_ext_local {A} (f g : A -> bool) (l : list A) :
  (forall a, In a l -> f a = g a) -> existsb f l = existsb g l.
Proof.
  induction l as [|a l IH]; intro H; simpl; [reflexivity|].
  rewrite H by (left; reflexivity). rewrite IH; [reflexivity|].
  intros b Hb. apply H. right. assumption.
Qed.
